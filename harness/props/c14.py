"""C14 - no kernel reads or writes outside its arrays on in-contract input.

(A) index safety is an invariant of the step-by-step machines (Ws2d!IndexOK / NoWrap, RollIndexOK,
    MCTinterp cursors, IterAgg!SliceOK) and, for the remaining kernels, of MCIndexModels: every access
    as a function of the input sizes is in bounds under the documented contract, with negative
    controls when the contract is dropped.
(B) a fresh subprocess compiles every kernel with NUMBA_BOUNDSCHECK=1 and runs boundary-sized inputs
    (minimum lengths, single pixel / group / zone, window == length, all-missing, one valid) twice on
    output buffers pre-filled with different garbage; TLC requires: no IndexError, no exception,
    identical results (every output element written).
"""
from __future__ import annotations

import json
import os
import subprocess
import sys

from .. import core

MODULE = "TraceBounds"


def run(tier, seed):
    rep = core.Report("C14", tier, seed)
    r = core.must_pass(core.tlc("MCIndexModels", "SPECIFICATION Spec\nCHECK_DEADLOCK FALSE\nCONSTANT N = 7\n", workers=1, timeout=900), "index models")
    rep.add_mc("MCIndexModels (access sets under the kernels' contracts, sizes 0..7, negative controls)", r)
    # the machines' own index invariants on their smallest scopes (cheap re-runs; full scopes in C01 / C17 / C20 / C19)
    from . import c01, c17

    defs = "LensDef == {2,3,4,5}\nYValsDef == {<<-1,1>>,<<2,1>>}\nWValsDef == {<<1,1>>}\nLamsDef == {<<1,2>>}\n"
    cfg = "SPECIFICATION Spec\nCHECK_DEADLOCK FALSE\nCONSTANTS\n Lens <- LensDef\n YVals <- YValsDef\n WVals <- WValsDef\n Lams <- LamsDef\nINVARIANT IndexOK\nINVARIANT NoWrap\n"
    r = core.must_pass(core.tlc("MCWs2dSmall", cfg, defs=defs, workers=4, timeout=900), "ws2d index safety n=2..5")
    rep.add_mc("Ws2d machine n = 2..5: IndexOK (with wrap-around at n = 2, 3), NoWrap for n >= 4", r)
    r = core.must_pass(core.tlc("MCReductions", c17._cfg_machine(4, "sumvalid"), defs=c17.DEFS, workers=core.NCPU, timeout=900), "rolling index safety")
    rep.add_mc("ReductionsMachine: RollIndexOK", r)
    env = dict(os.environ, NUMBA_BOUNDSCHECK="1", PYTHONPATH=f"/verif:{core.REPO}", NUMBA_DISABLE_JIT="0")
    p = subprocess.run([sys.executable, "-W", "ignore", "-m", "harness.bounds_worker", str(core.REPO), str(seed), tier], env=env, capture_output=True, text=True, timeout=3000, cwd=str(core.VERIF))
    line = [l for l in p.stdout.splitlines() if l.startswith("BOUNDS")]
    if not line:
        raise core.Machinery(f"bounds worker failed: {p.stderr[-800:]}")
    d = json.loads(line[0][6:])
    if not d["boundscheck"]:
        raise core.Machinery("numba did not enable bounds checking in the worker")
    cases = d["events"]
    for i, c in enumerate(cases):
        c["tid"] = i + 1
    verdicts, st = core.validate_batch(MODULE, cases, per_jvm=5000, timeout=900)
    rep.add_stats("TraceBounds", st, len(cases))
    kernels = sorted({c["kernel"] for c in cases})
    rep.extra.update(
        kernels_covered=len(kernels), kernels=kernels,
        distinct_nontrivial=len({(c["kernel"], c["label"]) for c in cases}),
        exhaustive=False,
        rule="35 kernels x boundary sizes n in {2,3,4,5,8} (quick) + {13,30}: full / all-missing / one valid / two valid / gappy series, lambda 0 and 10, sranges of 2,3,5 entries, robust on/off, "
        "lc > / <= 0.5 / NaN, window 1 and n, 1..n groups and zones (incl. empty zones), templates of daily length >= 4 with 2..8 marks and 1..n periods; all compiled with NUMBA_BOUNDSCHECK=1",
    )
    for c in cases[:3] + cases[-2:]:
        rep.sample(c)
    rep.settle(cases, verdicts)
    rep.assumptions += ["numba's own bounds checking (NUMBA_BOUNDSCHECK=1) reports every out-of-range index of the compiled kernels; memory errors inside numba / LLVM / SciPy are not covered"]
    return rep.finish()


def replay(path):
    v = json.loads(open(path).read())
    print("recorded event:", v["trace"])
    print(f"VIOLATION property=C14 replay={path}")
    return 1
