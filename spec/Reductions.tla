----------------------------- MODULE Reductions -----------------------------
(***************************************************************************)
(* rolling_sum and mean_grp (hdc/algo/ops/stats.py) and the accessors      *)
(* hdc.rolling.sum / hdc.algo.mean_grp (hdc/algo/accessors.py).            *)
(*                                                                         *)
(* Contract layer: what property C17 states, as sets of allowed results.   *)
(* Algorithm layer: the loops of the kernels as a state machine, one       *)
(* action per loop iteration, with every array index explicit.             *)
(* Sequences are 1-based here; position i corresponds to index i-1.        *)
(***************************************************************************)
EXTENDS Integers, Sequences, FiniteSets

----------------------------------------------------------------------------
(* generic helpers *)
RECURSIVE SumIdx(_, _)
SumIdx(x, S) == IF S = {} THEN 0
                ELSE LET j == CHOOSE j \in S : TRUE IN x[j] + SumIdx(x, S \ {j})

Window(i, w)      == (i - w + 1) .. i
ValidIn(x, nd, S) == {j \in S : x[j] # nd}

----------------------------------------------------------------------------
(* CONTRACT: rolling sum.  Position i (1-based) has a complete window iff  *)
(* i >= w.  Allowed results per position, exactly as C17 words it.         *)
RollAllowed(x, w, nd, i) ==
    LET win == Window(i, w)
        val == ValidIn(x, nd, win)
        s   == SumIdx(x, val)
    IN  IF val = win THEN {s}
        ELSE IF val = {} THEN {nd}
        ELSE {nd, s}

\* the kernel keeps the incomplete positions and marks them nodata
RollKernelOK(x, w, nd, y) ==
    /\ Len(y) = Len(x)
    /\ \A i \in 1..Len(x) :
          IF i < w THEN y[i] = nd ELSE y[i] \in RollAllowed(x, w, nd, i)

\* the accessor drops the first w-1 positions
RollAccessorOK(x, w, nd, y) ==
    /\ Len(y) = Len(x) - (w - 1)
    /\ \A k \in 1..Len(y) : y[k] \in RollAllowed(x, w, nd, k + w - 1)

\* which of the two allowed results was chosen in a mixed window
\* ("amb" when the valid sum happens to equal the sentinel itself)
RollChoice(x, w, nd, y, i) ==
    LET win == Window(i, w)
        val == ValidIn(x, nd, win)
        s   == SumIdx(x, val)
    IN  IF val = win \/ val = {} THEN "forced"
        ELSE IF s = nd THEN "amb"
        ELSE IF y[i] = nd THEN "nodata" ELSE "sum"

\* nodata-value independence: x2 is x1 with the sentinel nd1 replaced by nd2
\* (and no valid cell equal to nd2); then the same decisions must be taken
SameUpToSentinel(x1, nd1, x2, nd2) ==
    /\ Len(x1) = Len(x2)
    /\ \A j \in 1..Len(x1) : IF x1[j] = nd1 THEN x2[j] = nd2 ELSE (x2[j] = x1[j] /\ x1[j] # nd2)

RollIndependent(x1, nd1, y1, x2, nd2, y2, w) ==
    \A i \in w..Len(x1) :
        LET c1 == RollChoice(x1, w, nd1, y1, i)
            c2 == RollChoice(x2, w, nd2, y2, i)
        IN  (c1 \in {"nodata", "sum"} /\ c2 \in {"nodata", "sum"}) => c1 = c2

----------------------------------------------------------------------------
(* CONTRACT: grouped mean.  g[i] in 0..ng-1.  The exact mean is the pair   *)
(* <<sum, count>>; the numeric comparison with the float32 output is done  *)
(* where exact rationals are available (TraceReductions).                  *)
Members(g, k)          == {j \in 1..Len(g) : g[j] = k}
GroupValid(x, g, nd, k) == {j \in Members(g, k) : x[j] # nd}
GroupMean(x, g, nd, k) ==   \* <<sum, count>>, count = 0 => nodata
    LET v == GroupValid(x, g, nd, k) IN <<SumIdx(x, v), Cardinality(v)>>

----------------------------------------------------------------------------
(* ALGORITHM: rolling_sum as in stats.py.  Variant "sumvalid" is the       *)
(* repaired kernel (sum of the valid cells, nodata when there is none);    *)
(* variant "pinned" is the kernel at the pinned commit, which `continue`s  *)
(* after meeting the sentinel and keeps adding (kept so that TLC exhibits  *)
(* the C17 counterexample in the model, see MCReductions).                 *)
RECURSIVE RollCellPinned(_, _, _, _, _)
RollCellPinned(x, nd, jj, hi, acc) ==      \* jj, hi 0-based inclusive
    IF jj > hi THEN acc
    ELSE IF x[jj + 1] = nd THEN RollCellPinned(x, nd, jj + 1, hi, nd)
    ELSE RollCellPinned(x, nd, jj + 1, hi, acc + x[jj + 1])

RECURSIVE RollCellSumValid(_, _, _, _, _, _)
RollCellSumValid(x, nd, jj, hi, acc, nv) ==
    IF jj > hi THEN (IF nv = 0 THEN nd ELSE acc)
    ELSE IF x[jj + 1] = nd THEN RollCellSumValid(x, nd, jj + 1, hi, acc, nv)
    ELSE RollCellSumValid(x, nd, jj + 1, hi, acc + x[jj + 1], nv + 1)

RollAlgo(variant, x, w, nd) ==
    [i \in 1..Len(x) |->
        LET ii == i - 1 IN
        IF ii - w + 1 < 0 THEN nd
        ELSE IF variant = "pinned" THEN RollCellPinned(x, nd, ii - w + 1, ii, 0)
        ELSE RollCellSumValid(x, nd, ii - w + 1, ii, 0, 0)]

----------------------------------------------------------------------------
(* ALGORITHM: mean_grp as in stats.py: for each group, accumulate over the *)
(* members in order, skip the sentinel, scatter the mean to all members.   *)
RECURSIVE GrpAcc(_, _, _, _, _)
GrpAcc(x, nd, mem, s, n) ==     \* mem: sequence of member positions
    IF mem = <<>> THEN <<s, n>>
    ELSE IF x[Head(mem)] = nd THEN GrpAcc(x, nd, Tail(mem), s, n)
    ELSE GrpAcc(x, nd, Tail(mem), s + x[Head(mem)], n + 1)

RECURSIVE SeqOfSet(_)
SeqOfSet(S) == IF S = {} THEN <<>>
               ELSE LET m == CHOOSE m \in S : \A o \in S : m <= o
                    IN <<m>> \o SeqOfSet(S \ {m})

MeanGrpAlgo(x, g, ng, nd) ==    \* per position <<sum, count>> of its group
    [i \in 1..Len(x) |->
        IF g[i] \in 0..(ng - 1) THEN GrpAcc(x, nd, SeqOfSet(Members(g, g[i])), 0, 0)
        ELSE <<0, -1>>]          \* never written by any group iteration

MeanGrpAlgoOK(x, g, ng, nd) ==
    \A i \in 1..Len(x) : MeanGrpAlgo(x, g, ng, nd)[i] = GroupMean(x, g, nd, g[i])
=============================================================================
