------------------------------ MODULE TraceZonal ------------------------------
EXTENDS Zonal, Json, IOUtils
Cases == JsonDeserialize(IOEnv.TRACE_FILE)
VARIABLES k, v
\* c.steps: per time step the runs; c.res[t][zone+1] = <<mean, count>>; c.nz zones; c.bits
Verdict(c) ==
    LET bad == {tz \in (1..Len(c.steps)) \X (0..(c.nz - 1)) :
                   ~CellOK(c.res[tz[1]][tz[2] + 1][1], c.res[tz[1]][tz[2] + 1][2], ZoneStat(c.steps[tz[1]], tz[2], c.nd, c.znd), c.bits)}
    IN  IF Len(c.res) # Len(c.steps) \/ \E t \in 1..Len(c.res) : Len(c.res[t]) # c.nz THEN <<"REJECT", "Shape", "">>
        ELSE IF bad = {} THEN <<"ACCEPT", "", "">>
        ELSE LET tz == CHOOSE tz \in bad : TRUE
                 st == ZoneStat(c.steps[tz[1]], tz[2], c.nd, c.znd) IN
             <<"REJECT", IF st[2] = 0 THEN "EmptyZoneIsNaN0" ELSE "ExactMeanAndCount",
               ToString(<<tz, c.res[tz[1]][tz[2] + 1], st>>)>>
\* generic clauses of every recorded call: the caller's arrays come back untouched; an exception is an event
Guarded(c) == IF "inmod" \in DOMAIN c /\ c.inmod THEN <<"REJECT", "InputsUnmodified", "">>
              ELSE IF "exc" \in DOMAIN c /\ c.exc # "" THEN <<"REJECT", "NoException", c.exc>>
              ELSE Verdict(c)
Init == k \in 1..Len(Cases) /\ v = "todo"
Next == /\ v = "todo"
        /\ LET r == Guarded(Cases[k]) IN PrintT(<<"V", k, r[1], r[2], r[3]>>) /\ v' = r[1]
        /\ UNCHANGED k
TraceSpec == Init /\ [][Next]_<<k, v>>
=============================================================================
