---------------------------- MODULE MCWs2dBig ----------------------------
(* Ws2d over BigRat (Java override): larger scopes *)
EXTENDS BigRat, Sequences, FiniteSets, TLC
CONSTANTS Lens, YVals, WVals, Lams
VARIABLES y, w, lam, n, d, c, e, z, pc, i, touched
W2 == INSTANCE Ws2d WITH Add <- RAdd, Sub <- RSub, Mul <- RMul, Div <- RDiv, FromInt <- RInt

Positive(W) == Cardinality({j \in DOMAIN W : W[j] # RZero}) >= 2
\* y ranges over scaled unit vectors and two dense vectors (the solution is
\* linear in y -- Linear below -- so this spans all right-hand sides)
Unit(nn, j) == [t \in 1..nn |-> IF t = j THEN "3" ELSE "0"]
Dense1(nn)  == [t \in 1..nn |-> RInt(((t * t * 7) % 11) - 5)]
Dense2(nn)  == [t \in 1..nn |-> RDiv(RInt(((t * 5) % 7) - 3), "4")]
Ys(nn) == {Unit(nn, j) : j \in 1..nn} \cup {Dense1(nn), Dense2(nn)}
Init == \E nn \in Lens : \E Y \in Ys(nn) : \E W \in [1..nn -> WVals] : \E L \in Lams :
           Positive(W) /\ W2!Init(Y, W, L)
Spec == Init /\ [][W2!Row0 \/ W2!Row1 \/ W2!Fwd \/ W2!RowM1 \/ W2!RowM \/ W2!BackM1 \/ W2!Back]_W2!vars

NoOverflow == TRUE
IndexOK == W2!IndexOK
NoWrap == W2!NoWrap
SolvesPLS == W2!SolvesPLS
Factorised == W2!Factorised
FoldedAgrees == (pc = "ret" /\ n >= 4) => W2!ZSeq = W2!Solve(W2!YSeq, W2!WSeq, lam)
\* a cell with zero weight has no influence on the solution (C02 on the core)
MaskedIndependent ==
    (pc = "ret" /\ n >= 4) =>
        \A j \in 1..n : W2!WSeq[j] = RZero =>
            \A v \in YVals : W2!Solve([W2!YSeq EXCEPT ![j] = v], W2!WSeq, lam) = W2!ZSeq
\* the solution is linear in y: Solve(a*y1 + y2) = a*Solve(y1) + Solve(y2)
Linear ==
    (pc = "ret" /\ n >= 4) =>
        LET Y2 == Dense2(n)
            S2 == W2!Solve(Y2, W2!WSeq, lam)
            Yc == [t \in 1..n |-> RAdd(RMul("-5/3", W2!YSeq[t]), Y2[t])]
        IN  W2!Solve(Yc, W2!WSeq, lam) = [t \in 1..n |-> RAdd(RMul("-5/3", W2!ZSeq[t]), S2[t])]
=============================================================================
