----------------------------- MODULE MCAutocorr -----------------------------
EXTENDS Autocorr
CONSTANTS MaxLen, Variant
VARIABLES inp, ok
Alphabet == {"nan", "0", "1", "2", "5"}
Init == ok = "todo" /\ \E n \in 3..MaxLen : \E D \in [1..n -> Alphabet] : inp = D
Affine(D) == [i \in 1..Len(D) |-> IF Miss(D[i]) THEN "nan" ELSE RAdd(RMul("7/2", D[i]), "-3")]
Eval(D) == /\ AlgoMatches(Variant, D)
           /\ RangeOK(D)
           \* positive affine rescaling leaves r^2 and the sign unchanged
           /\ (Degenerate(D) <=> Degenerate(Affine(D)))
           /\ (~Degenerate(D) =>
                 /\ RMul(RSq(Cov(D)), RMul(VarOf(XOf(Affine(D))), VarOf(YOf(Affine(D)))))
                      = RMul(RSq(Cov(Affine(D))), RMul(VarOf(XOf(D)), VarOf(YOf(D))))
                 /\ RSign(Cov(D)) = RSign(Cov(Affine(D))))
Next == ok = "todo" /\ ok' = (IF Eval(inp) THEN "yes" ELSE "no") /\ UNCHANGED inp
Spec == Init /\ [][Next]_<<inp, ok>>
Holds == ok # "no"
=============================================================================
