----------------------------- MODULE TraceWs2d -----------------------------
(***************************************************************************)
(* Recorded executions of ws2d against spec/Ws2d.tla and Penalty!IsPLS.    *)
(*  exact: the Python source of ws2d run on exact fractions; the arrays    *)
(*         d, c, e, z at return are logged.  The Ws2d machine is stepped   *)
(*         row by row and every cell it writes is compared with the log;   *)
(*         at return the result must satisfy the normal equations          *)
(*         identically.                                                    *)
(*  float: the compiled kernel on float64; TLC solves exactly (folded      *)
(*         form, itself checked against the normal equations) and requires *)
(*         max|z - z*| <= 1e-6 max|z*|   (C01).                            *)
(***************************************************************************)
EXTENDS BigRat, Sequences, FiniteSets, Json, IOUtils, TLC

Cases == JsonDeserialize(IOEnv.TRACE_FILE)
VARIABLES y, w, lam, n, d, c, e, z, pc, i, touched, k, v
W2 == INSTANCE Ws2d WITH Add <- RAdd, Sub <- RSub, Mul <- RMul, Div <- RDiv, FromInt <- RInt
tvars == <<y, w, lam, n, d, c, e, z, pc, i, touched, k, v>>
C == Cases[k]

RECURSIVE MaxAbs(_, _)
MaxAbs(s, j) == IF j = 0 THEN "0" ELSE RMax(RAbs(s[j]), MaxAbs(s, j - 1))
IsNum(s) == s \notin {"nan", "inf", "-inf"}

FloatVerdict(cs) ==
    LET zs == W2!Solve(cs.y, cs.w, cs.lam)
        nn == Len(cs.y)
    IN  IF ~W2!P!IsPLS(zs, cs.y, cs.w, cs.lam) THEN <<"REJECT", "SpecSolveNotPLS", "">>
        ELSE IF Len(cs.z) # nn \/ \E j \in 1..nn : ~IsNum(cs.z[j]) THEN <<"REJECT", "NotFinite", "">>
        ELSE LET err == MaxAbs([j \in 1..nn |-> RSub(cs.z[j], zs[j])], nn)
                 ref == MaxAbs(zs, nn)
             IN  IF RLe(err, RMul("1/1000000", ref)) THEN <<"ACCEPT", "", "">>
                 ELSE <<"REJECT", "Float64Within1e-6", RShow(RDiv(err, RMax(ref, "1/1000000000000000000000000000000")))>>

----------------------------------------------------------------------------
Init == /\ k \in 1..Len(Cases)
        /\ v = "run"
        /\ IF Cases[k].op = "exact" THEN W2!Init(Cases[k].y, Cases[k].w, Cases[k].lam)
           ELSE /\ y = <<>> /\ w = <<>> /\ lam = "0" /\ n = 0 /\ d = <<>> /\ c = <<>> /\ e = <<>> /\ z = <<>>
                /\ pc = "float" /\ i = 0 /\ touched = {}

Finish(kind, clause, detail) ==
    /\ PrintT(<<"V", k, kind, clause, detail>>)
    /\ v' = kind /\ UNCHANGED <<y, w, lam, n, d, c, e, z, pc, i, touched, k>>

Float == v = "run" /\ pc = "float" /\ LET r == FloatVerdict(C) IN Finish(r[1], r[2], r[3])

\* which cell a forward / backward step has just written (0-based)
Written == CASE pc = "row1" -> 0 [] pc = "fwd" -> i - 1 [] pc = "rowm" -> n - 2
             [] pc = "backm1" -> n - 1 [] pc = "back" -> i + 1 [] OTHER -> -1
\* compare the machine with the log after each step
StepClause ==
    LET j == Written IN
    IF j < 0 THEN "ok"
    ELSE IF pc \in {"row1", "fwd", "rowm", "backm1"} THEN
         (IF d[j] # C.d[j + 1] THEN "Row:d" ELSE IF c[j] # C.c[j + 1] THEN "Row:c"
          ELSE IF e[j] # C.e[j + 1] THEN "Row:e" ELSE "ok")
    ELSE IF pc = "back" /\ z[j] # C.z[j + 1] THEN "Back:z"
    ELSE "ok"

\* a source that returned without the factor arrays: only its result can be judged
NoFactors == /\ v = "run" /\ pc = "row0" /\ Len(C.d) = 0
             /\ IF C.z = W2!Solve(C.y, C.w, C.lam) THEN Finish("ACCEPT", "", "result-only")
                ELSE Finish("REJECT", "IsPLS", "result-only")

Step == /\ v = "run" /\ pc \notin {"float", "ret"} /\ ~(pc = "row0" /\ Len(C.d) = 0)
        /\ LET cl == StepClause IN
             IF cl = "ok" THEN W2!Next /\ UNCHANGED <<k, v>>
             ELSE Finish("REJECT", cl, ToString(Written))

Ret == /\ v = "run" /\ pc = "ret"
       /\ IF W2!ZSeq # C.z THEN Finish("REJECT", "Back:z", "final")
          ELSE IF ~W2!SolvesPLS THEN Finish("REJECT", "IsPLS", "")
          ELSE Finish("ACCEPT", "", ToString(n))

TraceNext == Float \/ NoFactors \/ Step \/ Ret
TraceSpec == Init /\ [][TraceNext]_tvars
IndexOK == pc # "float" => W2!IndexOK
=============================================================================
