"""C10 - Mann-Kendall trend follows its definition and symmetries.

(A) MCMannKendall: every value pattern of length 2..6/7 (all weak orders): kernel loops =
    declarative S / Var(S) / Sen median; rank-only dependence, sign flips, slope scaling.
(B) mann_kendall_trend_1d, both gufunc wrappers (int16 / float32), mktrend(): every pattern
    of the same scope (bulk) + random series to n = 200 with heavy ties + linked transforms.
    tau, slope exact rationals vs float32; p through a table of 2(1-Phi(k/2000)); flag through
    the bracketed quantile.
"""
from __future__ import annotations

import json
import math
import random

import numpy as np

from .. import core

MODULE = "TraceMannKendall"
KMAX = 16000


def ptable():
    """2(1 - Phi(k/2000)) = erfc(k / (2000 sqrt 2)) as exact rationals of the doubles; cross-checked"""
    from statistics import NormalDist

    from scipy.special import ndtr

    tab = [math.erfc(k / (2000.0 * math.sqrt(2.0))) for k in range(KMAX + 1)]
    nd = NormalDist()
    for k in range(0, KMAX + 1, 250):
        a = 2.0 * (1.0 - nd.cdf(k / 2000.0))
        b = 2.0 * float(ndtr(-k / 2000.0))
        if abs(tab[k] - b) > 1e-12 * max(b, 1e-300) + 1e-300 or (k <= 12000 and abs(tab[k] - a) > 1e-9):
            raise core.Machinery(f"normal table cross-check failed at k={k}: {tab[k]} {a} {b}")
    return [core.rat(v) for v in tab]


def kern():
    from hdc.algo.ops.stats import _mann_kendall_trend_gu, _mann_kendall_trend_gu_nd, mann_kendall_trend_1d

    return mann_kendall_trend_1d, _mann_kendall_trend_gu, _mann_kendall_trend_gu_nd


def call(x, api, dtype, nd=None):
    """returns (tau, p, slope, trend) as (rat, rat, rat, int)"""
    import xarray as xr

    k1, gu, gund = kern()
    a = np.array(x, dtype=dtype)
    global _LAST_WATCH
    _LAST_WATCH = core.Watch(a)
    if api == "1d":
        t, p, s, tr = k1(a.astype("float64") if dtype == "float64" else a)
    elif api == "gu":
        t, p, s, tr = gu(a)
    elif api == "gund":
        t, p, s, tr = gund(a, nd)
    elif api == "yxt":
        # the cube kernel: the series sits between a strongly rising, a strongly falling and a constant pixel
        # (every pixel's result depends on its own series only - nothing carries over in scan order)
        from hdc.algo.ops.stats import mann_kendall_trend_yxt

        n = len(x)
        ramp = np.arange(n).astype(dtype)
        cube = np.stack([ramp, a, ramp[::-1].copy(), a, np.full(n, a[0], dtype=dtype), a]).reshape(2, 3, n)
        _LAST_WATCH = core.Watch(cube)
        r = mann_kendall_trend_yxt(cube)
        cells = [r[0, 1], r[1, 0], r[1, 2]]
        if any(not np.array_equal(cells[0], c_, equal_nan=True) for c_ in cells[1:]):
            return "nan", "nan", "nan", -9     # the same series at three positions must give the same four numbers
        t, p, s, tr = cells[0]
    else:
        da = xr.DataArray(a.reshape(1, 1, -1), dims=("y", "x", "time")).transpose(*[("y", "x", "time"), ("time", "y", "x"), ("y", "time", "x")][len(x) % 3])
        if api.startswith("mktrend_nd"):
            da.attrs["nodata"] = nd
        if api.endswith("dask"):
            da = da.chunk({"y": 1, "x": 1})
        r = da.hdc.algo.mktrend()
        # the Dataset's shape: four variables, dtypes, the trend's own nodata
        if sorted(r.data_vars) != ["pvalue", "slope", "tau", "trend"] or str(r["trend"].dtype) != "int8" or r["trend"].attrs.get("nodata") != -2 or any(str(r[v].dtype) != "float32" for v in ("tau", "pvalue", "slope")):
            raise RuntimeError("mktrend dataset layout")
        t, p, s, tr = (np.asarray(r[n]).reshape(-1)[0] for n in ("tau", "pvalue", "slope", "trend"))
    return core.rat(t), core.rat(p), core.rat(s), int(tr)


_LAST_WATCH = None


def all_patterns(n):
    """one representative per weak order: sequences over 1..n whose value set is 1..k"""
    ix = np.arange(n**n)
    X = np.stack([(ix // (n**j)) % n + 1 for j in range(n)], axis=1)
    mx = X.max(axis=1)
    nuniq = np.array([len(set(r)) for r in X.tolist()]) if n <= 6 else (np.sort(X, axis=1)[:, 1:] != np.sort(X, axis=1)[:, :-1]).sum(axis=1) + 1
    return X[nuniq == mx]


def execute(c):
    op = c["op"]
    if op == "bulk":
        _, gu, gund = kern()
        X = np.array(c["xs"]).astype(c["dtype"])
        t, p, s, tr = gu(X) if c["api"] == "gu" else gund(X, -999.0)
        c["tau"], c["p"], c["slope"] = ([core.rat(v) for v in a.tolist()] for a in (t, p, s))
        c["trend"] = [int(v) for v in tr.tolist()]
    elif op == "allnodata":
        c["tau"], c["p"], c["slope"], c["trend"] = call(c["xi"], c["api"], c["dtype"], c["ndv"])
        c["nd"] = core.rat(np.float32(c["ndv"]))
    else:
        c["tau"], c["p"], c["slope"], c["trend"] = call(c["xi"], c["api"], c["dtype"], c.get("ndv"))
        c["inmod"] = bool(_LAST_WATCH and _LAST_WATCH.changed())
        c["x"] = [core.rat(np.dtype(c["dtype"]).type(v)) for v in c["xi"]]
        if op == "pair":
            c["tau2"], c["p2"], c["slope2"], c["trend2"] = call(c["yi"], c["api"], c["dtype"], c.get("ndv"))
    return c


def gen_cases(tier, seed):
    rng = random.Random(seed * 7477 + 10)
    quick = tier == "quick"
    cases = []

    def add(c):
        c["tid"] = len(cases) + 1
        cases.append(c)

    for n in range(2, (6 if quick else 7) + 1):
        pats = all_patterns(n).tolist()
        for api, dtype in (("gu", "int16"), ("gund", "float32")) if n <= 6 else (("gu", "int16"),):
            for a in range(0, len(pats), 400):
                add({"op": "bulk", "n": n, "xs": pats[a : a + 400], "api": api, "dtype": dtype, "f32": True})
    for _ in range(200 if quick else 1000):
        n = rng.randint(2, 40 if quick else 200) if rng.random() < 0.15 or quick else rng.randint(2, 80)
        dtype = rng.choice(["int16", "float32"])
        style = rng.choice(["ties", "trend", "noise", "fewvals", "inflated"])
        if style == "ties":
            xi = [rng.randint(0, max(1, n // 4)) for _ in range(n)]
        elif style == "trend":
            xi = [int(t * rng.choice([-3, 2, 5]) + rng.gauss(0, n)) for t in range(n)]
        elif style == "noise":
            xi = [rng.randint(-10000, 10000) for _ in range(n)]
        elif style == "inflated":
            # one value in most of the cells and a ramp at one end: more than half of the pairs are tied (Sen's slope is 0)
            # while S is large - the flag follows Z, not the slope
            n = max(n, rng.randint(8, 30))
            k = int(n * rng.choice([0.6, 0.75, 0.85]))
            ramp = sorted(rng.randint(1, 9) for _ in range(n - k))
            xi = [0] * k + ramp if rng.random() < 0.5 else ramp[::-1] + [0] * k
            if rng.random() < 0.5:
                xi = [-v for v in xi]
        else:
            xi = [rng.choice([0, 1]) for _ in range(n)]
        api = rng.choice(["1d", "gu", "gund", "mktrend", "mktrend_nd", "mktrend_dask", "mktrend_nd_dask", "yxt"])
        if api == "1d":
            dtype = rng.choice(["int16", "float32", "float64"])
        if dtype != "int16" and rng.random() < 0.5:
            xi = [v + rng.choice([0.0, 0.25, 0.5]) for v in xi]
        ndv = -9999.0
        kind = rng.choice(["one", "mono", "neg", "rev"])
        c = {"op": "one" if kind == "one" else "pair", "api": api, "dtype": dtype, "xi": xi, "ndv": ndv, "f32": api != "1d"}
        if kind == "mono":
            c["rel"] = "mono"
            c["yi"] = [2 * v + 7 for v in xi] if max(abs(v) for v in xi) < 15000 else [v + 1 for v in xi]
        elif kind == "neg":
            c["rel"] = "neg"
            c["yi"] = [-v for v in xi]
        elif kind == "rev":
            c["rel"] = "rev"
            c["yi"] = xi[::-1]
        add(c)
    # the significance threshold itself: series whose |Z| lies between Phi^-1(0.975) = 1.959964 and 1.96 (p just below
    # 0.05: the flag is sign(Z)) and just below the quantile (flag 0) - built from a sorted series with k tied pairs by
    # adjacent swaps, each of which lowers S by 2
    import math

    q = 1.959963984540054
    made = 0
    for n in range(30, 140):
        for k in (0, 1, 2, 5, 20, 30):
            if 2 * k > n or made >= (6 if quick else 40):
                continue
            var = (n * (n - 1) * (2 * n + 5) - k * 2 * 1 * 9) / 18.0
            for s_target in range(int(q * math.sqrt(var)) - 1, int(q * math.sqrt(var)) + 4):
                z = (s_target - 1) / math.sqrt(var)
                smax = n * (n - 1) // 2 - k
                if not (q < z < 1.96 or q - 0.0004 < z < q) or (smax - s_target) % 2 or s_target > smax:
                    continue
                base = []
                v = 0
                for i in range(n):
                    base.append(v)
                    if not (i < 2 * k and i % 2 == 0):
                        v += 1
                # lower S by adjacent swaps of distinct neighbours, sweeping from the left (bubble the large values down)
                xs_, need, i = list(base), (smax - s_target) // 2, 0
                while need and i < 10**6:
                    j = i % (n - 1)
                    if xs_[j] < xs_[j + 1]:
                        xs_[j], xs_[j + 1] = xs_[j + 1], xs_[j]
                        need -= 1
                        i += 2
                    else:
                        i += 1
                if need:
                    continue
                for sign in (1, -1):
                    add({"op": "one", "api": rng.choice(["gu", "gund", "mktrend", "yxt"]), "dtype": rng.choice(["int16", "float32"]), "xi": [sign * t for t in xs_], "ndv": -9999.0, "f32": True, "family": "threshold"})
                made += 1
    # neighbouring representable numbers: observations one unit in the last place apart are strictly ordered, not tied
    k = 0
    for n in (8, 12, 20):
        for base, dt in ((1.0e7, "float32"), (2048.0, "float32"), (0.1, "float32"), (1.0e16, "float64"), (3.0, "float64")):
            ft = np.dtype(dt).type
            chain = [ft(base)]
            for _ in range(n - 1):
                chain.append(np.nextafter(chain[-1], ft(np.inf)))
            xs_ = [float(v) for v in chain]
            for j in rng.sample(range(n - 1), max(1, n // 5)):      # a few adjacent swaps and one exact tie
                xs_[j], xs_[j + 1] = xs_[j + 1], xs_[j]
            xs_[rng.randrange(n)] = xs_[0]
            apis = ["gund", "mktrend", "yxt", "gu"] if dt == "float32" else ["1d"]
            for sign in (1, -1):
                add({"op": "one", "api": apis[k % len(apis)], "dtype": dt, "xi": [sign * t for t in xs_], "ndv": -9999.0, "f32": dt == "float32", "family": "ulp"})
                k += 1
    for n in (1, 2, 5, 30):
        for api, dtype in (("gund", "int16"), ("gund", "float32"), ("mktrend_nd", "int16")):
            add({"op": "allnodata", "api": api, "dtype": dtype, "xi": [-9999] * n, "ndv": -9999.0})
            add({"op": "allnodata", "api": api, "dtype": dtype, "xi": [0] * n, "ndv": 0.0})       # the falsy nodata value
    return cases


def describe(c):
    d = {k: c[k] for k in ("op", "api", "dtype", "n", "rel", "tau", "p", "slope", "trend") if k in c and not isinstance(c[k], list)}
    if "xs" in c:
        d["patterns"] = len(c["xs"])
        d["first"] = c["xs"][:2]
    if "xi" in c:
        d["x_head"] = c["xi"][:10]
        d["len"] = len(c["xi"])
    return d


def run(tier, seed):
    rep = core.Report("C10", tier, seed)
    quick = tier == "quick"
    cfg = f"SPECIFICATION Spec\nCHECK_DEADLOCK FALSE\nCONSTANT MaxLen = {6 if quick else 7}\nINVARIANT Holds\n"
    r = core.must_pass(core.tlc("MCMannKendall", cfg, workers=core.NCPU, timeout=6000, heap="6g"), "mk patterns")
    rep.add_mc("MCMannKendall (loops = definitions, symmetries)", r)
    cases = [execute(c) for c in gen_cases(tier, seed)]
    common = {"ptable": ptable()}
    bulk = [c for c in cases if c["op"] == "bulk"]
    rest = [c for c in cases if c["op"] != "bulk"]
    v1, st1 = core.validate_batch(MODULE, bulk, per_jvm=4, timeout=7000, heap="6g", common=common)
    v2, st2 = core.validate_batch(MODULE, rest, per_jvm=300, timeout=6000, heap="4g", common=common)
    rep.add_stats("TraceMannKendall bulk", st1, len(bulk))
    rep.add_stats("TraceMannKendall calls", st2, len(rest))
    rep.extra.update(
        bulk_patterns_validated=sum(len(c["xs"]) for c in bulk),
        exhaustive=True,
        distinct_nontrivial=len({json.dumps([c.get("xi"), c.get("xs"), c["api"]]) for c in cases}),
        rule="bulk: every rank pattern (one representative per weak order) of length 2..6 (quick) / 7 (thorough) on the compiled gufuncs; random series n <= 40/200 (ties, trends, two-valued), "
        "linked monotone/negated/reversed copies, all-nodata pixels; kernel, both wrappers, mktrend()",
    )
    for c in rest[:3] + rest[-1:]:
        rep.sample(describe(c))
    rep.settle(bulk, v1)
    rep.settle(rest, v2)
    rep.assumptions += ["Phi enters through a table erfc(k/(2000 sqrt2)) generated from the C library and cross-checked against scipy.special.ndtr and statistics.NormalDist", "p is bracketed to one grid cell (about 4e-4 absolute at worst)"]
    return rep.finish()


def replay(path):
    v = json.loads(open(path).read())
    t = v["trace"]
    c = execute({k: t[k] for k in t if k not in ("tau", "p", "slope", "trend", "tau2", "p2", "slope2", "trend2", "tid", "x", "nd")})
    c["tid"] = 1
    verdicts, _ = core.validate_batch(MODULE, [c], jobs=1, common={"ptable": ptable()})
    print("replayed", describe(c), "->", verdicts[1])
    if verdicts[1][0] == "REJECT":
        print(f"VIOLATION property=C10 replay={path}")
        return 1
    return 0
