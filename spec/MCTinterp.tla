----------------------------- MODULE MCTinterp -----------------------------
(* small scope: cursor loops = declarative definitions, cursors stay in bounds *)
EXTENDS Tinterp
CONSTANTS MaxLen
VARIABLES inp, ok

Contig(lab) == \A a, b \in 1..Len(lab) : (a < b /\ lab[a] = lab[b]) => \A t \in a..b : lab[t] = lab[a]
Init == /\ ok = "todo"
        /\ \E n \in 4..MaxLen : \E tm \in [1..n -> {0, 1}] : \E lab \in [1..n -> 1..3] :
              /\ Cardinality(Marks(tm)) >= 2 /\ Contig(lab)
              /\ inp = <<tm, lab>>
Eval(i) ==
    LET tm == i[1]  lab == i[2]
        x == [j \in 1..Cardinality(Marks(tm)) |-> RInt(3 * j * j - 7)]
        sl == ScatterLoop(x, tm, 0, 0, <<>>)
        z == [j \in 1..Len(tm) |-> RInt(((j * 5) % 7) - 3)]
    IN  /\ sl[3] /\ sl[2] = Len(x)                 \* cursor jj ends exactly at len(x)
        /\ sl[1] = Scatter(x, tm)                  \* loop = declarative scatter
        /\ AlgoMeans(z, lab) = PeriodMeans(z, lab) \* run-length loop = declarative means
        /\ RunsList(lab) = [r \in 1..NRuns(lab) |-> RunOf(lab, r)]
        /\ Len(AlgoMeans(z, lab)) = Cardinality({lab[j] : j \in 1..Len(lab)})   \* kk stays inside template_out
Next == ok = "todo" /\ ok' = (IF Eval(inp) THEN "yes" ELSE "no") /\ UNCHANGED inp
Spec == Init /\ [][Next]_<<inp, ok>>
Holds == ok # "no"
=============================================================================
