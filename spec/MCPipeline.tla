------------------------------ MODULE MCPipeline ------------------------------
EXTENDS Pipeline
Facts == [hastime : BOOLEAN, sg : BOOLEAN, s : BOOLEAN, lc : BOOLEAN, p : BOOLEAN, srange : BOOLEAN, int16 : BOOLEAN,
          nodataarg : BOOLEAN, nodataattr : BOOLEAN, groups : BOOLEAN, groupslen : BOOLEAN, dataset : BOOLEAN]
Rest == [zonesda |-> TRUE, zonesnodata |-> TRUE, dimexists |-> TRUE, nzero |-> FALSE, datetime |-> TRUE, timefirst |-> TRUE]
Layouts == {<<"time", "y", "x">>, <<"y", "x", "time">>, <<"x", "time", "y">>}
VARIABLES inp, ok
Init == ok = "todo" /\ \E f \in Facts : \E op \in Ops : \E d \in Layouts : \E lazy \in BOOLEAN :
            inp = [op |-> op, f |-> ([f EXCEPT !.s = f.s /\ ~f.sg] @@ Rest), dims |-> d, lazy |-> lazy]
Eval(i) == /\ OutputsDefined(i.op, i.f, i.dims, i.lazy)
           /\ NodataStory(i.op, i.f)
           /\ TimeAxis(i.op, i.f, i.dims, i.lazy)
           /\ Dtypes(i.op, i.f, i.dims, i.lazy)
           /\ RejectedCompilesNothing(i.op, i.f, i.dims, i.lazy)
Next == ok = "todo" /\ ok' = (IF Eval(inp) THEN "yes" ELSE "no") /\ UNCHANGED inp
Spec == Init /\ [][Next]_<<inp, ok>>
Holds == ok # "no"
\* negative control: "zonal.mean takes its nodata from an argument as well" is NOT what the tables say - must be refuted
ZonalArgWorks == inp.op = "zonal_mean" =>
    H!Expected("zonal_mean", [inp.f EXCEPT !.hastime = TRUE, !.dataset = FALSE, !.nodataarg = TRUE, !.nodataattr = FALSE]) = "ok"
=============================================================================
