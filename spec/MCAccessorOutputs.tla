-------------------------- MODULE MCAccessorOutputs --------------------------
(* Laws of the output table over every layout of a (time, y, x) cube, every  *)
(* operation, laziness, naming and input dtype.                              *)
EXTENDS AccessorOutputs
VARIABLES op, in

Perms == {<<"time", "y", "x">>, <<"time", "x", "y">>, <<"y", "x", "time">>, <<"x", "y", "time">>, <<"y", "time", "x">>, <<"x", "time", "y">>}
Extent(d) == CASE d = "time" -> 8 [] d = "y" -> 2 [] OTHER -> 3
In(dims, dtype, name, lazy) ==
    [dims |-> dims, sizes |-> [i \in 1..3 |-> Extent(dims[i])], dtype |-> dtype, name |-> name, attrs |-> {"nodata", "units"}, nodata |-> "-3000",
     lazy |-> lazy, w |-> 3, nper |-> 4, nz |-> 2, dimname |-> "zones", zname |-> "none", outdtype |-> "float32"]

Init == /\ op \in Ops
        /\ \E dims \in Perms, dtype \in {"int16", "float32", "float64"}, name \in {"ndvi", "none"}, lazy \in BOOLEAN : in = In(dims, dtype, name, lazy)
Next == UNCHANGED <<op, in>>
Spec == Init /\ [][Next]_<<op, in>>

Out == Expected(op, in)
Defined == Out # <<>>
WellFormed == NoDupDims(Out) /\ Aligned(Out)
LayoutFree == \A p \in Perms : SameUpToOrder(Out, Expected(op, [in EXCEPT !.dims = p, !.sizes = [i \in 1..3 |-> Extent(p[i])]]))
LazyFree == SameButName(Out, Expected(op, [in EXCEPT !.lazy = ~in.lazy]))
PixelOrder == op \notin {"zonal_mean"} => PixelOrderKept(in, Out)
\* negative control: names ARE allowed to differ between lazy and eager (autocorr, zonal_mean) - demanding equality must fail
LazySameName == Out = Expected(op, [in EXCEPT !.lazy = ~in.lazy])
=============================================================================
