------------------------------ MODULE DekadOps ------------------------------
(***************************************************************************)
(* A Dekad object under a sequence of operations (C11: "behave as an       *)
(* ordered integer line").  TLC generates behaviours (simulation); the     *)
(* harness replays every step on real objects and compares raw and the     *)
(* result of the step.  hist carries the behaviour out of TLC.             *)
(***************************************************************************)
EXTENDS Dekad, TLC
CONSTANTS Depth, Offsets
VARIABLES raw, res, hist

Others(r) == {o \in {r - 37, r - 36, r - 3, r - 1, r, r + 1, r + 2, r + 35, r + 36, r + 400} : InRange(o)}
Seeds == {FirstRaw, FirstRaw + 1, LastRaw, LastRaw - 1, RawOfLabel(1999, 12, 3), RawOfLabel(2000, 2, 3),
          RawOfLabel(2024, 2, 3), RawOfLabel(1900, 2, 3), RawOfLabel(2000, 1, 1), RawOfLabel(5000, 6, 2)}

Step(name, a, b, nraw, nres) ==
    /\ raw' = nraw /\ res' = nres
    /\ hist' = Append(hist, <<name, a, b, nraw, nres>>)

B(x) == IF x THEN 1 ELSE 0
Add   == \E n \in Offsets : InRange(raw + n) /\ Step("add", n, 0, raw + n, raw + n)
RAdd  == \E n \in Offsets : InRange(raw + n) /\ Step("radd", n, 0, raw + n, raw + n)
Sub   == \E n \in Offsets : InRange(raw - n) /\ Step("sub", n, 0, raw - n, raw - n)
\* (d + n) - d == n and (d + n) - n == d
Law   == \E n \in Offsets : InRange(raw + n) /\ Step("law", n, 0, raw, n)
Diff  == \E o \in Others(raw) : Step("diff", o, 0, raw, raw - o)
Cmp   == \E o \in Others(raw) : \E kind \in {"dekad", "int", "str", "date"} : \E op \in {"lt", "le", "gt", "ge", "eq"} :
            Step(op, o, kind, raw,
                 B(CASE op = "lt" -> raw < o [] op = "le" -> raw <= o [] op = "gt" -> raw > o
                     [] op = "ge" -> raw >= o [] op = "eq" -> raw = o))
Hash  == \E o \in Others(raw) : Step("hash", o, 0, raw, B(raw = o))      \* equal dekads hash equally
Round == \E via \in {"label", "startdate", "enddate", "raw", "repr"} :
            (via = "enddate" => raw # LastRaw) /\ Step("round", 0, via, raw, raw)

Init == raw \in Seeds /\ res = raw /\ hist = <<<<"new", 0, 0, raw, raw>>>>
Next == Len(hist) < Depth /\ (Add \/ RAdd \/ Sub \/ Law \/ Diff \/ Cmp \/ Hash \/ Round)
Spec == Init /\ [][Next]_<<raw, res, hist>>
Emit == Len(hist) = Depth => PrintT(<<"H", hist>>)
InRangeInv == InRange(raw)
=============================================================================
