------------------------------ MODULE SpiPixel ------------------------------
(***************************************************************************)
(* gammastd / gammastd_yxt / gammastd_grp (hdc/algo/ops/stats.py): one     *)
(* pixel's series.  Cells are rationals (canonical strings).  The real     *)
(* functions of the definition -- gamma MLE, gamma CDF / survival function *)
(* -- are NOT computed here: the trace supplies their values at the needed *)
(* points from SciPy's public scipy.stats entry points (the oracle C07     *)
(* names); this module checks everything around them exactly: which cells  *)
(* are valid, the zero share p0, WHICH sample is fitted, the mixture       *)
(* u = p0 + (1-p0) G(x), and the rounded normal quantile through a table   *)
(* of the normal distribution (inversion-free bracket).                    *)
(***************************************************************************)
EXTENDS BigRat, Integers, Sequences, FiniteSets, TLC

IsND(v, nd) == v = nd
ValidCells(x, nd) == {i \in 1..Len(x) : ~IsND(x[i], nd) /\ RLe("0", x[i])}       \* non-nodata, >= 0
ZeroCells(x, nd)  == {i \in ValidCells(x, nd) : x[i] = "0"}
P0(x, nd) == RDiv(RInt(Cardinality(ZeroCells(x, nd))), RInt(Cardinality(ValidCells(x, nd))))
\* positions (1-based) of the cells that enter the gamma fit: inside [start, stop) (0-based
\* half-open), not nodata, strictly positive
FitCells(x, nd, st, sp) == {i \in (st + 1)..sp : i <= Len(x) /\ ~IsND(x[i], nd) /\ RLt("0", x[i])}
DistinctFitValues(x, nd, st, sp) == Cardinality({x[i] : i \in FitCells(x, nd, st, sp)})
\* a pixel that cannot be fitted yields nodata everywhere
Unfittable(x, nd, st, sp) ==
    \/ ValidCells(x, nd) = {}
    \/ RLt("9/10", P0(x, nd))
    \/ FitCells(x, nd, st, sp) = {}
\* the claim of C07 covers pixels whose window holds at least two distinct positive values
InClaim(x, nd, st, sp) == ~Unfittable(x, nd, st, sp) /\ DistinctFitValues(x, nd, st, sp) >= 2

\* ---- the normal distribution through the table PT[k+1] = 2 (1 - Phi(k/2000)), k = 0..16000
KMAX == 16000
UpperTail(PT, kk) == IF kk >= KMAX THEN RDiv(PT[KMAX + 1], "2") ELSE IF kk <= -KMAX THEN "1"
                     ELSE IF kk >= 0 THEN RDiv(PT[kk + 1], "2") ELSE RSub("1", RDiv(PT[(-kk) + 1], "2"))   \* 1 - Phi(kk/2000)
LowerTail(PT, kk) == UpperTail(PT, -kk)                                                              \* Phi(kk/2000)
\* reported index s (units of 1/1000) is a correct rounding of Phi^-1(u), given u and q = 1 - u,
\* widened by dlt units: Phi((2(s-dlt)-1)/2000) <= u <= Phi((2(s+dlt)+1)/2000), decided in the tail
\* that carries the precision
Eps == "1/2000000000000000"        \* 5e-16: half the spacing of float64 numbers below 1, twice
Tau == "1000001/1000000"
QuantileOK(PT, s, dlt, u, q) ==
    LET lo == 2 * (s - dlt) - 1  hi == 2 * (s + dlt) + 1 IN
    IF s >= 0
    THEN /\ RLe(RSub(RDiv(UpperTail(PT, hi), Tau), Eps), q)
         /\ RLe(q, RAdd(RMul(UpperTail(PT, lo), Tau), Eps))
    ELSE /\ RLe(RSub(RDiv(LowerTail(PT, lo), Tau), Eps), u)
         /\ RLe(u, RAdd(RMul(LowerTail(PT, hi), Tau), Eps))
\* beyond the resolution claimed by C07 (|index| > 7000) C08 only asks that the value stays extreme
Beyond(PT, u, q) == IF RLt(q, UpperTail(PT, 14000)) THEN 1 ELSE IF RLt(u, LowerTail(PT, -14000)) THEN -1 ELSE 0

----------------------------------------------------------------------------
\* ALGORITHM skeleton of gammastd: the counting loop and the case split
RECURSIVE CountLoop(_, _, _, _, _)
CountLoop(x, nd, i, nz, nv) ==
    IF i > Len(x) THEN <<nz, nv>>
    ELSE IF x[i] = nd THEN CountLoop(x, nd, i + 1, nz, nv)
    ELSE CountLoop(x, nd, i + 1, IF x[i] = "0" THEN nz + 1 ELSE nz, IF RLe("0", x[i]) THEN nv + 1 ELSE nv)
RECURSIVE FitLoop(_, _, _, _, _)
FitLoop(x, nd, i, sp, acc) ==      \* gammafit over x[start:stop] restricted to valid cells: collects the positives
    IF i > sp \/ i > Len(x) THEN acc
    ELSE FitLoop(x, nd, i + 1, sp, IF x[i] # nd /\ RLt("0", x[i]) THEN acc \cup {i} ELSE acc)
CellClass(x, nd, i) == IF x[i] = nd THEN "nodata" ELSE IF RLe("0", x[i]) THEN "index" ELSE "nodata"
=============================================================================
