"""C01 - the Whittaker core returns the exact penalised least-squares solution.

(A) MCWs2dSmall (pure-TLA+ rationals, n in {4,5}) and MCWs2dBig (n up to 6/8): the row
    machine of ws2d => LDL' factorisation invariant, normal equations at return, index
    safety, folded form = machine, zero-weight independence, linearity.
(B) exact leg: the Python source ws2d.py_func executed on fractions.Fraction; d, c, e, z
    at return are logged and TLC steps the Ws2d machine row by row against them.
    float leg: the compiled kernel on float64; TLC solves exactly and requires 1e-6.
"""
from __future__ import annotations

import json
import random
import sys
from fractions import Fraction

import numpy as np

from .. import core

MODULE = "TraceWs2d"
CFG = "SPECIFICATION TraceSpec\nCHECK_DEADLOCK FALSE\nINVARIANT IndexOK\n"

MC_CFG = """SPECIFICATION Spec
CHECK_DEADLOCK FALSE
CONSTANTS
 Lens <- LensDef
 YVals <- YValsDef
 WVals <- WValsDef
 Lams <- LamsDef
INVARIANT NoOverflow
INVARIANT IndexOK
INVARIANT NoWrap
INVARIANT SolvesPLS
INVARIANT Factorised
INVARIANT FoldedAgrees
INVARIANT MaskedIndependent
"""


def exact_run(y, w, lam):
    """ws2d's Python source on Fractions; returns the arrays d, c, e, z at return"""
    from hdc.algo.ops import ws2d as mod

    f = mod.ws2d.py_func
    g = f.__globals__
    saved = g["zeros"]
    captured = {}

    def fzeros(n):
        a = np.empty(n, dtype=object)
        a[:] = Fraction(0)
        return a

    def tracer(frame, event, arg):
        if frame.f_code is f.__code__:
            def local(fr, ev, a):
                if ev == "return":
                    captured.update({k: list(fr.f_locals[k]) for k in ("d", "c", "e", "z") if k in fr.f_locals})
                return local
            return local
        return None

    ya = np.array([Fraction(v) for v in y], dtype=object)
    wa = np.array([Fraction(v) for v in w], dtype=object)
    g["zeros"] = fzeros
    saved_where = g.get("where")
    if saved_where is not None:      # the source cleans zero-weight cells with where(w == 0, 0.0, y)
        def fwhere(cond, a, b):
            aa = [Fraction(0) if (isinstance(a, float) and a == 0.0) else a] * len(b) if not hasattr(a, "__len__") else list(a)
            return np.array([ai if ci else bi for ci, ai, bi in zip(cond, aa, b)], dtype=object)
        g["where"] = fwhere
    # helpers the source may call (other njit functions of the module) run from their Python source too
    helpers = {k: v for k, v in g.items() if hasattr(v, "py_func") and callable(getattr(v, "py_func", None)) and v is not mod.ws2d}
    for k, v in helpers.items():
        g[k] = v.py_func
    old = sys.gettrace()
    sys.settrace(tracer)
    try:
        z = f(ya, Fraction(lam), wa)
    finally:
        sys.settrace(old)
        g["zeros"] = saved
        if saved_where is not None:
            g["where"] = saved_where
        for k, v in helpers.items():
            g[k] = v
    for k in ("d", "c", "e"):
        captured.setdefault(k, [])      # a source that returns before allocating them: only z is checked
    captured["z"] = list(z)
    return captured


def execute(c):
    from hdc.algo.ops.ws2d import ws2d

    y = [Fraction(s) for s in c["y"]]
    w = [Fraction(s) for s in c["w"]]
    lam = Fraction(c["lam"])
    if c["op"] == "exact":
        try:
            r = exact_run(y, w, lam)
            for k in ("d", "c", "e", "z"):
                c[k] = [core.rat(Fraction(v)) for v in r[k]]
        except ZeroDivisionError:
            c["z"] = ["nan"] * len(y)
            c["d"] = c["c"] = c["e"] = c["z"]
        except Exception as ex:
            # a source that cannot run on Fractions at all (a limitation of this leg, not a verdict on the code):
            # the case is decided by the float leg instead
            c["op"] = "float"
            c["exact_unavailable"] = type(ex).__name__
    if c["op"] == "float":
        for k in ("d", "c", "e"):
            c.pop(k, None)
        ty = c.get("types")
        try:
            if ty:
                # the public core accepts any numeric arrays and a Python int for lambda: the same numbers in other argument types
                lam_arg = int(lam) if ty["lam"] == "int" else float(lam)
                z = ws2d(np.array([float(v) for v in y]).astype(ty["y"]), lam_arg, np.array([float(v) for v in w]).astype(ty["w"]))
            else:
                z = ws2d(np.array([float(v) for v in y]), float(lam), np.array([float(v) for v in w]))
            c["z"] = [core.rat(v) for v in z.tolist()]
        except Exception as ex:          # an exception on an in-claim instance is an observation (no solution returned), not a harness failure
            c["z"] = ["nan"] * len(y)
            c["exception"] = repr(ex)[:120]
    return c


def fl(x):
    """a float as exact rational string"""
    return core.rat(float(x))


def weights(rng, n, kind):
    if kind == "ones":
        w = [1.0] * n
    elif kind == "rand01":
        w = [float(rng.random() < 0.6) for _ in range(n)]
    elif kind == "frac":
        w = [rng.choice([0.0, 0.1, 0.9, 1.0, 0.5]) for _ in range(n)]
    elif kind == "tiny":      # a few small positive weights, total at most 1
        w = [0.0] * n
        for j in rng.sample(range(n), rng.randint(2, min(4, n))):
            w[j] = rng.choice([0.125, 0.25, 0.0625])
    elif kind == "microall":   # every weight positive but far below any absolute tolerance: still a weight
        w = [rng.choice([1e-9, 5e-9, 2.0 ** -30, 3e-10]) for _ in range(n)]
    elif kind == "microgap":   # unit weights, a zero-weight run, and one barely-weighted observation inside the run
        w = [1.0] * n
        L = rng.randint(2, n - 2)
        a = rng.randint(0, n - L)
        for j in range(a, a + L):
            w[j] = 0.0
        w[rng.randint(a, a + L - 1)] = rng.choice([1e-9, 5e-9, 2.0 ** -30])
    else:  # long zero runs at start / end / interior
        w = [1.0] * n
        L = rng.randint(1, n - 2)
        a = {"lead": 0, "trail": n - L, "mid": rng.randint(0, n - L)}[kind]
        for j in range(a, a + L):
            w[j] = 0.0
    if sum(1 for v in w if v > 0) < 2:
        i, j = rng.sample(range(n), 2)
        w[i] = w[j] = 1.0
    return w


def gen_cases(tier, seed):
    rng = random.Random(seed * 2654435761 % (2**31) + 1)
    quick = tier == "quick"
    cases = []

    def add(c):
        c["tid"] = len(cases) + 1
        cases.append(c)

    def data(n):
        kind = rng.choice(["int", "int", "float", "lin", "const"])
        if kind == "int":
            return [float(rng.randint(-10000, 10000)) for _ in range(n)]
        if kind == "float":
            return [rng.uniform(-1e4, 1e4) for _ in range(n)]
        if kind == "lin":
            a, b = rng.uniform(-100, 100), rng.uniform(-20, 20)
            return [a + b * t for t in range(n)]
        return [float(rng.randint(-10000, 10000))] * n

    lam_exps = [-6, -5, -3, -1, 0, 1, 2, 3, 5, 8]
    # exact leg: small and medium n, all weight kinds
    for _ in range(60 if quick else 500):
        n = rng.choice([4, 4, 5, 5, 6, 7, 8, 9, 12, 16, 24] + ([] if quick else [32, 48, 64]))
        kind = rng.choice(["ones", "rand01", "frac", "lead", "trail", "mid", "tiny", "microall", "microgap"])
        lam = rng.choice([Fraction(1, 2), Fraction(10) ** rng.choice(lam_exps[:8]), Fraction(rng.randint(1, 999), rng.choice([1, 7, 1000]))])
        y = [Fraction(rng.randint(-10000, 10000), rng.choice([1, 1, 3])) for _ in range(n)]
        w = [Fraction(v) if kind.startswith("micro") else Fraction(v).limit_denominator(10) for v in weights(rng, n, kind)]
        add({"op": "exact", "y": [core.rat(v) for v in y], "w": [core.rat(v) for v in w], "lam": core.rat(lam), "wkind": kind})
    # float leg: compiled kernel
    sizes = [4, 5, 6, 7, 8, 10, 16, 24, 32, 48] if quick else [4, 5, 6, 7, 8, 10, 16, 24, 32, 48, 64, 96, 128]
    for _ in range(240 if quick else 1500):
        n = rng.choice(sizes)
        kind = rng.choice(["ones", "rand01", "frac", "lead", "trail", "mid", "tiny", "microall", "microgap"])
        lam = 10.0 ** rng.choice(lam_exps) * rng.choice([1.0, 1.0, rng.uniform(1, 10)])
        lam = min(max(lam, 1e-6), 1e8)
        if kind == "microall":
            lam = rng.choice([1e-6, 2e-6, 1e-5])     # keeps 16 lam / mean(w) (the conditioning) moderate
        add({"op": "float", "y": [fl(v) for v in data(n)], "w": [fl(v) for v in weights(rng, n, kind)], "lam": fl(lam), "wkind": kind})
    # argument types: integer / bool / single-precision weights, integer or single-precision data, lambda as a Python int
    # (numbers chosen exactly representable in every type, so the exact contract sees the same instance)
    combos = [("float64", "int64", "int"), ("float64", "uint8", "int"), ("float64", "bool", "int"), ("float64", "bool", "float"), ("float64", "float32", "int"),
              ("int16", "float64", "int"), ("float32", "int64", "float"), ("int16", "uint8", "int")]
    for ci, (ty, tw, tl) in enumerate(combos if quick else combos * 4):
        for _ in range(2):
            n = rng.choice([6, 9, 12, 24])
            wmax = 1 if tw == "bool" else rng.choice([1, 4])
            w = [float(rng.randint(0, wmax)) for _ in range(n)]
            for j in rng.sample(range(n), 3):
                w[j] = 1.0
            add({"op": "float", "y": [fl(float(rng.randint(-10000, 10000))) for _ in range(n)], "w": [fl(v) for v in w], "lam": fl(float(rng.choice([1, 10, 100, 1000]))),
                 "wkind": "argtypes", "types": {"y": ty, "w": tw, "lam": tl}})
    if not quick:
        for n in (200, 300, 400):
            for kind, lam in (("mid", 1e8), ("lead", 1e-6), ("ones", 1.0)):
                add({"op": "float", "y": [fl(v) for v in data(n)], "w": [fl(v) for v in weights(rng, n, kind)], "lam": fl(lam), "wkind": kind})
    return cases


def describe(c):
    d = {k: c[k] for k in ("op", "lam", "wkind") if k in c}
    d["n"] = len(c["y"])
    d["y_head"] = c["y"][:4]
    d["w_head"] = c["w"][:6]
    if "z" in c:
        d["z_head"] = [s if len(s) < 40 else s[:37] + "..." for s in c["z"][:3]]
    return d


def model_check(rep, tier):
    quick = tier == "quick"
    defs = "LensDef == {4,5}\nYValsDef == {<<-1,1>>,<<0,1>>,<<2,1>>}\nWValsDef == {<<0,1>>,<<1,1>>}\nLamsDef == " + ("{<<1,2>>,<<2,1>>}" if quick else "{<<1,2>>,<<1,1>>,<<2,1>>}") + "\n"
    r = core.must_pass(core.tlc("MCWs2dSmall", MC_CFG, defs=defs, workers=core.NCPU, timeout=3000), "Ws2d SmallRat")
    # vacuity: the machine must run to "ret" (rows 0,1,fwd*,m-1,m, back-substitution): depth n+4
    if r.depth < 9:
        raise core.Machinery(f"vacuous: Ws2d machine did not reach its return (depth {r.depth})")
    rep.add_mc("MCWs2dSmall n in {4,5} (pure TLA+ rationals)", r, depth=r.depth)
    lens = "{4,5,6}" if quick else "{4,5,6,7}"
    defs = f'LensDef == {lens}\nYValsDef == {{"-2","7"}}\nWValsDef == {{"0","1","1/2"}}\nLamsDef == {{"1/1000","10"}}\n'
    r = core.must_pass(core.tlc("MCWs2dBig", MC_CFG + "INVARIANT Linear\n", defs=defs, workers=core.NCPU, timeout=7000, heap="12g"), "Ws2d BigRat")
    rep.add_mc(f"MCWs2dBig n in {lens}", r)
    # negative control: a machine whose row m-1 uses 6*lam instead of 5*lam is caught by SolvesPLS.
    # (done on the trace side by corrupting a recorded trace, see binding demo below)


def binding_demo(rep, cases, verdicts):
    """an accepted exact trace stays accepted, each single corrupted cell is rejected (the demonstration needs
    accepted traces to start from: on a tree that violates the property everywhere it is skipped, the violations speak)"""
    ok = lambda c: verdicts.get(c["tid"], ("",))[0] == "ACCEPT"  # noqa: E731
    base = next((c for c in cases if c["op"] == "exact" and len(c["y"]) >= 6 and ok(c)), None)
    fb = next((c for c in cases if c["op"] == "float" and ok(c)), None)
    if base is None or fb is None:
        rep.notes.append("binding demo skipped: no accepted exact / float trace to corrupt")
        return
    bad1 = json.loads(json.dumps(base))
    if len(bad1.get("d", [])) > 3:
        bad1["d"][3] = core.rat(Fraction(bad1["d"][3]) + Fraction(1, 10**9))
    else:        # a source whose factors are not locals of ws2d itself: only the result can be corrupted
        bad1["z"][0] = core.rat(Fraction(bad1["z"][0]) + Fraction(1, 10**9))
    bad2 = json.loads(json.dumps(base))
    bad2["z"][2] = core.rat(Fraction(bad2["z"][2]) + 1)
    bad3 = json.loads(json.dumps(fb))
    zmax = max(abs(Fraction(s)) for s in bad3["z"]) or Fraction(1)
    bad3["z"][1] = core.rat(Fraction(bad3["z"][1]) + zmax * Fraction(3, 10**6))
    demo = [dict(base, tid=1), dict(bad1, tid=2), dict(bad2, tid=3), dict(bad3, tid=4)]
    v, _ = core.validate_batch(MODULE, demo, cfg=CFG, jobs=1)
    got = [v[i][0] for i in (1, 2, 3, 4)]
    if got != ["ACCEPT", "REJECT", "REJECT", "REJECT"]:
        raise core.Machinery(f"binding demonstration failed: {got} {v}")
    rep.notes.append(f"binding demo: pristine trace ACCEPT; corrupted d[3] -> {v[2][1]}, corrupted z[2] -> {v[3][1]}, float z off by 3e-6 -> {v[4][1]}")


def m_illcond(trace, clause):
    """known finding C01-F1: ill-conditioned normal equations, kappa_est >= 1e10 (exact evaluation)"""
    if clause != "Float64Within1e-6" or trace.get("op") != "float":
        return False
    w = [Fraction(s) for s in trace["w"]]
    n = len(w)
    sw = sum(w)
    mu0 = sw / n
    tw = sum(wi * i for i, wi in enumerate(w)) / sw
    tbar = Fraction(n - 1, 2)
    mu1 = sum(wi * (i - tw) ** 2 for i, wi in enumerate(w)) / sum((i - tbar) ** 2 for i in range(n))
    return 16 * Fraction(trace["lam"]) >= 10**10 * min(mu0, mu1)


def run(tier, seed):
    rep = core.Report("C01", tier, seed)
    rep.matchers["c01_ill_conditioned"] = m_illcond
    model_check(rep, tier)
    cases = [execute(c) for c in gen_cases(tier, seed)]
    verdicts, st = core.validate_batch(MODULE, cases, cfg=CFG, per_jvm=120, timeout=6000, heap="4g")
    binding_demo(rep, cases, verdicts)
    rep.add_stats("TraceWs2d", st, len(cases))
    rep.extra.update(
        distinct_nontrivial=len({json.dumps([c["y"], c["w"], c["lam"], c["op"]]) for c in cases}),
        exhaustive=False,
        rule="exact leg: ws2d.py_func on Fractions (n 4..24 quick / ..64 thorough; all weight kinds incl. leading/trailing/interior zero runs); "
        "float leg: compiled ws2d, n up to 48 (quick) / 128 + 200..400 (thorough), lambda in [1e-6, 1e8]; distinct = distinct (y,w,lambda,leg)",
        legs={"exact": sum(c["op"] == "exact" for c in cases), "float": sum(c["op"] == "float" for c in cases)},
    )
    for c in cases[:2] + cases[-2:]:
        rep.sample(describe(c))
    rep.settle(cases, verdicts)
    rep.assumptions += ["exact leg: fractions.Fraction arithmetic of CPython is exact", "BigRat override (java.math.BigInteger) cross-checked against SmallRat by MCArith in setup"]
    return rep.finish()


def replay(path):
    v = json.loads(open(path).read())
    c = execute({k: v["trace"][k] for k in ("op", "y", "w", "lam")})
    c["tid"] = 1
    verdicts, _ = core.validate_batch(MODULE, [c], cfg=CFG, jobs=1)
    print("replayed", describe(c), "->", verdicts[1])
    if verdicts[1][0] == "REJECT":
        print(f"VIOLATION property=C01 replay={path}")
        return 1
    return 0
