"""X05 (extra, not one of the listed properties) - the shape of what the accessors return.

spec/AccessorOutputs.tla gives, per operation, the variables of the result with their dimensions
(in order), extents, dtype (announced and computed), name and attribute keys as a function of
facts about the input.  MCAccessorOutputs checks the table's laws (layout changes only the order
of dimensions, laziness only names, pixel dimensions keep the input's order); the harness calls
every operation on every layout of a (time, y, x) cube, eager and lazy, named and unnamed, and
TLC decides every recorded result.
"""
from __future__ import annotations

import itertools
import json
import random
import re
import warnings

import numpy as np

from .. import core

MODULE = "TraceAccessorOutputs"
ND = -3000
OPS = ["whits_s", "whits_sg", "whits_sgp", "whitsvc", "whitsvc_p", "whitsvc_lc", "whitswcv", "whitswcv_p", "whitint", "spi", "spi_grp", "lroo", "croo",
       "autocorr", "mktrend", "mean_grp", "rolling_sum", "zonal_mean", "anom_ratio", "anom_diff", "iteragg_sum", "iteragg_mean"]
FLOAT_OK = {"whits_s", "whits_sg", "whits_sgp", "whitsvc", "whitsvc_p", "whitswcv", "whitswcv_p", "spi", "mktrend", "mean_grp", "rolling_sum", "zonal_mean",
            "anom_ratio", "anom_diff", "iteragg_sum", "iteragg_mean"}
TOKEN = re.compile(r"^[A-Za-z_0-9]+-[0-9a-f]{32}$")


def build(c):
    import pandas as pd
    import xarray as xr

    T, ny, nx = c["T"], c["ny"], c["nx"]
    rs = np.random.RandomState(c["tid"])
    a = rs.gamma(2.0, 30, (T, ny, nx))
    if c["op"] in ("lroo", "croo"):
        a = (a > 40).astype("uint8")
    else:
        a = a.astype(c["dtype"])
    da = xr.DataArray(a, dims=("time", "y", "x"), coords={"time": pd.date_range("2001-03-01", periods=T, freq="10D"), "y": np.arange(ny) * 10.0, "x": np.arange(nx) + 0.5},
                      name=c["name"], attrs={"nodata": ND, "units": "u"})
    da = da.transpose(*c["dims"])
    if c["lazy"]:
        da = da.chunk({"time": -1, "y": 1, "x": max(1, nx // 2)})
    return da


def call(c, da):
    import xarray as xr

    T, ny, nx = c["T"], c["ny"], c["nx"]
    yx = lambda v: xr.DataArray(np.full((ny, nx), v), dims=("y", "x"), coords={"y": da.y, "x": da.x})  # noqa: E731
    op = c["op"]
    if op == "whits_s":
        return da.hdc.whit.whits(ND, s=10.0)
    if op == "whits_sg":
        return da.hdc.whit.whits(ND, sg=yx(1.0))
    if op == "whits_sgp":
        return da.hdc.whit.whits(ND, sg=yx(1.0), p=0.9)
    if op == "whitsvc":
        return da.hdc.whit.whitsvc(ND, srange=np.arange(-1, 1.5, 0.5))
    if op == "whitsvc_p":
        return da.hdc.whit.whitsvc(ND, srange=np.arange(-1, 1.5, 0.5), p=0.9)
    if op == "whitsvc_lc":
        return da.hdc.whit.whitsvc(ND, lc=yx(0.7), p=0.9)
    if op == "whitswcv":
        return da.hdc.whit.whitswcv(ND)
    if op == "whitswcv_p":
        return da.hdc.whit.whitswcv(ND, p=0.9)
    if op == "whitint":
        tm = np.zeros((T - 1) * 5 + 1)
        tm[::5] = 1
        lab = (np.arange(tm.size) * c["nper"] // tm.size).astype("int32")
        return da.hdc.whit.whitint(lab, tm)
    if op == "spi":
        return da.hdc.algo.spi()
    if op == "spi_grp":
        return da.hdc.algo.spi(groups=[i % 2 for i in range(T)])
    if op in ("lroo", "croo", "autocorr", "mktrend"):
        return getattr(da.hdc.algo, op)()
    if op == "mean_grp":
        return da.hdc.algo.mean_grp(np.array([i % 2 for i in range(T)], dtype="int16"))
    if op == "rolling_sum":
        return da.hdc.rolling.sum(c["w"])
    if op == "zonal_mean":
        zones = xr.DataArray((np.arange(ny * nx).reshape(ny, nx) % c["nz"]).astype("int32"), dims=("y", "x"), attrs={"nodata": 255})
        kw = {}
        if c["dimname"] != "zones":
            kw["dim_name"] = c["dimname"]
        if c["zname"] != "none":
            kw["name"] = c["zname"]
        if c["outdtype"] != "float32":
            kw["dtype"] = c["outdtype"]
        return da.hdc.zonal.mean(zones, list(range(c["nz"])), **kw)
    if op == "anom_ratio":
        return da.hdc.anom.ratio(da.mean("time"), offset=1)
    if op == "anom_diff":
        return da.hdc.anom.diff(da.mean("time"))
    if op in ("iteragg_sum", "iteragg_mean"):
        return list(getattr(da.hdc.iteragg, op.split("_")[1])(c["w"]))[0]
    raise KeyError(op)


def name_of(n):
    if n is None:
        return "none"
    n = str(n)
    return "token" if TOKEN.match(n) else n


def coords_ok(c, da, v):
    """index coordinates of the result: kept from the input where the dimension keeps its extent,
    the trailing stamps for rolling sums / the window's last stamp for iteragg, ids for zones"""
    for d in v.dims:
        if d in ("newtime",):
            if d in v.coords:
                return f"no:{d}"
            continue
        if d == "stat":
            if list(v[d].values) != ["mean", "valid"]:
                return f"no:{d}"
            continue
        if d == c.get("dimname") and c["op"] == "zonal_mean":
            if list(np.asarray(v[d]).tolist()) != list(range(c["nz"])):
                return f"no:{d}"
            continue
        if d not in v.coords:
            return f"no:{d}"
        want = np.asarray(da[d])
        if d == "time" and c["op"] == "rolling_sum":
            want = want[c["w"] - 1:]
        if d == "time" and c["op"].startswith("iteragg"):
            want = want[-1:]
        got = np.asarray(v[d])
        if got.shape != want.shape or not bool((got == want).all()):
            return f"no:{d}"
    return "yes"


def describe_var(c, da, var, v):
    adtype = str(v.dtype)
    vc = v.compute() if hasattr(v.data, "compute") else v
    nod = v.attrs.get("nodata", None)
    return {"var": var, "dims": [str(d) for d in v.dims], "sizes": [int(s) for s in v.shape], "dtype": str(vc.dtype), "adtype": adtype, "name": name_of(v.name),
            "attrs": sorted(str(k) for k in v.attrs), "nodata": "none" if nod is None else str(nod), "coordsok": coords_ok(c, da, vc)}


def execute(c):
    import xarray as xr

    da = build(c)
    c["in"] = {"dims": list(c["dims"]), "sizes": [int(da.sizes[d]) for d in c["dims"]], "dtype": str(da.dtype), "name": "none" if c["name"] is None else c["name"],
               "attrs": ["nodata", "units"], "nodata": str(ND), "lazy": bool(c["lazy"]), "w": c["w"], "nper": c["nper"], "nz": c["nz"], "dimname": c["dimname"],
               "zname": c["zname"], "outdtype": c["outdtype"]}
    c["out"] = []
    try:
        with warnings.catch_warnings():
            warnings.simplefilter("ignore")
            r = call(c, da)
            if isinstance(r, xr.Dataset):
                c["out"] = [describe_var(c, da, n, r[n]) for n in sorted(r.data_vars)]
            else:
                c["out"] = [describe_var(c, da, "", r)]
        c["outcome"] = "ok"
    except Exception as ex:  # an accepted call must not fail
        c["outcome"] = f"{type(ex).__name__}: {str(ex)[:120]}"
    return c


def gen_cases(tier, seed):
    rng = random.Random(seed * 7919 + 5)
    quick = tier == "quick"
    cases = []
    perms = [list(p) for p in itertools.permutations(("time", "y", "x"))]
    for op in OPS:
        for dims in perms:
            for lazy in (False, True):
                for name in ("ndvi", None):
                    dts = ["int16"] + (["float32"] if op in FLOAT_OK else [])
                    for dt in dts if not quick else [rng.choice(dts)] if rng.random() < 0.5 else dts[:1]:
                        T = rng.choice([6, 8, 11])
                        ny, nx = rng.choice([(2, 3), (1, 4), (3, 2), (2, 2)])
                        c = {"op": op, "dims": dims, "lazy": lazy, "name": name, "dtype": dt, "T": T, "ny": ny, "nx": nx, "w": rng.choice([1, 2, 3, T]),
                             "nper": rng.choice([1, 2, 4]), "nz": rng.choice([1, 2, 5]), "dimname": rng.choice(["zones", "zones", "region"]),
                             "zname": rng.choice(["none", "none", "zm"]), "outdtype": rng.choice(["float32", "float32", "float64"])}
                        if op == "iteragg_sum" or op == "iteragg_mean":
                            c["w"] = rng.choice([1, 2, 3])
                        cases.append(c)
    for i, c in enumerate(cases):
        c["tid"] = i + 1
    return cases


def tla_case(c):
    return {k: c[k] for k in ("tid", "op", "in", "out", "outcome")}


CFG = "SPECIFICATION Spec\nCHECK_DEADLOCK FALSE\nINVARIANT Defined\nINVARIANT WellFormed\nINVARIANT LayoutFree\nINVARIANT LazyFree\nINVARIANT PixelOrder\n"


def run(tier, seed):
    rep = core.Report("X05", tier, seed)
    r = core.must_pass(core.tlc("MCAccessorOutputs", CFG, workers=4, timeout=900), "output table laws")
    rep.add_mc("MCAccessorOutputs (Defined, WellFormed, LayoutFree, LazyFree, PixelOrder over 22 operations x 6 layouts x dtype x name x laziness)", r)
    r = core.tlc("MCAccessorOutputs", "SPECIFICATION Spec\nCHECK_DEADLOCK FALSE\nINVARIANT LazySameName\n", workers=4, timeout=900)
    if r.violated_name() != "LazySameName":
        raise core.Machinery(f"negative control failed: lazy and eager names differ for autocorr / zonal_mean\n{r.tail(20)}")
    rep.add_mc("MCAccessorOutputs LazySameName (negative control: violated as expected)", r)
    cases = [execute(c) for c in gen_cases(tier, seed)]
    verdicts, st = core.validate_batch(MODULE, [tla_case(c) for c in cases], per_jvm=2000, timeout=900)
    rep.add_stats("TraceAccessorOutputs", st, len(cases))
    rep.extra.update(distinct_nontrivial=len({json.dumps([c["op"], c["dims"], c["lazy"], c["name"], c["dtype"]]) for c in cases}), exhaustive=True,
                     rule="22 accepted accessor calls x 6 stored layouts x eager / lazy x named / unnamed (x int16 / float32 where accepted), random extents, windows, zone counts, names")
    for c in cases[:2] + cases[-2:]:
        rep.sample(tla_case(c))
    rep.settle(cases, verdicts)
    return rep.finish()


def replay(path):
    v = json.loads(open(path).read())
    c = execute({k: v["trace"][k] for k in v["trace"] if k not in ("in", "out", "outcome")})
    c["tid"] = 1
    verdicts, _ = core.validate_batch(MODULE, [tla_case(c)], jobs=1)
    print("replayed", json.dumps(tla_case(c))[:1500], "->", verdicts[1])
    if verdicts[1][0] == "REJECT":
        print(f"VIOLATION property=X05 replay={path}")
        return 1
    return 0
