-------------------------------- MODULE Runs --------------------------------
(***************************************************************************)
(* lroo (hdc/algo/ops/lroo.py) and PixelAlgorithms.croo / .lroo            *)
(* (hdc/algo/accessors.py).  Sequences are 1-based.                        *)
(***************************************************************************)
EXTENDS Integers, Sequences, FiniteSets

Max(S) == CHOOSE m \in S : \A o \in S : o <= m
Min(S) == CHOOSE m \in S : \A o \in S : m <= o

----------------------------------------------------------------------------
(* CONTRACT *)
\* [a..b] is a run of ones of x
IsRun(x, a, b) == a <= b /\ \A j \in a..b : x[j] = 1
\* C18: length of the longest run, counted only if it has at least two members
LongestRun(x) ==
    LET ls == {l \in 1..Len(x) : \E a \in 1..(Len(x) - l + 1) : IsRun(x, a, a + l - 1)}
    IN  IF ls = {} THEN 0 ELSE IF Max(ls) >= 2 THEN Max(ls) ELSE 0

\* linear-time equivalent used on long recorded series (checked equal to the
\* declarative form in MCRuns)
RECURSIVE LongestFold(_, _, _, _)
LongestFold(x, i, cur, best) ==
    IF i > Len(x) THEN (IF best >= 2 THEN best ELSE 0)
    ELSE IF x[i] = 1 THEN LongestFold(x, i + 1, cur + 1, IF cur + 1 > best THEN cur + 1 ELSE best)
    ELSE LongestFold(x, i + 1, 0, best)

\* run of ones ending at the chronologically latest step; t[i] = time stamp of
\* stored position i (all distinct)
Latest(t) == CHOOSE i \in 1..Len(t) : \A j \in 1..Len(t) : t[j] <= t[i]
\* chronological rank r (1 = latest) -> stored position
ByAge(t, r) == CHOOSE i \in 1..Len(t) : Cardinality({j \in 1..Len(t) : t[j] > t[i]}) = r - 1
CurrentRun(x, t) ==
    LET n == Len(x)
        ls == {l \in 1..n : \A r \in 1..l : x[ByAge(t, r)] = 1}
    IN  IF ls = {} THEN 0 ELSE Max(ls)

\* linear form for long recorded series; t must be a permutation of 1..n
\* (the harness records chronological ranks).  Checked equal in MCRuns.
RECURSIVE CountBack(_, _, _)
CountBack(x, inv, r) == IF r < 1 THEN 0 ELSE IF x[inv[r]] = 1 THEN 1 + CountBack(x, inv, r - 1) ELSE 0
CurrentFold(x, t) ==
    LET n == Len(x)
        inv == [r \in 1..n |-> CHOOSE i \in 1..n : t[i] = r]
    IN  CountBack(x, inv, n)

----------------------------------------------------------------------------
(* ALGORITHM: lroo.  dots = positions of the ones; the loop counts unit     *)
(* steps between successive positions.  OutBits = 0 models an output cell   *)
(* wide enough for every run; OutBits = W > 0 an unsigned W-bit cell (the   *)
(* pinned kernel stores into uint8, W = 8).                                 *)
Dots(x) == LET S == {j \in 1..Len(x) : x[j] = 1}
           IN  [r \in 1..Cardinality(S) |-> CHOOSE j \in S : Cardinality({o \in S : o < j}) = r - 1]

Store(v, bits) == IF bits = 0 THEN v ELSE v % (2 ^ bits)

RECURSIVE LrooLoop(_, _, _, _)
LrooLoop(dots, ix, cr, mr) ==          \* ix is the 0-based loop variable
    IF ix >= Len(dots) THEN mr
    ELSE IF dots[ix + 1] - dots[ix] = 1
         THEN LrooLoop(dots, ix + 1, cr + 1, IF cr + 1 > mr THEN cr + 1 ELSE mr)
         ELSE LrooLoop(dots, ix + 1, 1, mr)

LrooAlgo(x, bits) ==
    LET mr == LrooLoop(Dots(x), 1, 1, 0) IN IF mr > 1 THEN Store(mr, bits) ELSE 0

----------------------------------------------------------------------------
(* ALGORITHM: croo as the accessor's pipeline                               *)
(*   sortby(time, descending) -> where(==1) -> cumsum(skipna=False)         *)
(*   -> where(notnull, 0) -> argmax -> + value at the newest step           *)
NaN == -1      \* marker inside the pipeline (cumsum values are >= 1)
SortDesc(x, t) == [r \in 1..Len(x) |-> x[ByAge(t, r)]]
Mask(s) == [i \in 1..Len(s) |-> IF s[i] = 1 THEN 1 ELSE NaN]
RECURSIVE CumSum(_, _, _)
CumSum(m, i, acc) ==      \* NaN is sticky: once met, every later cell is NaN
    IF i > Len(m) THEN <<>>
    ELSE IF acc = NaN \/ m[i] = NaN THEN <<NaN>> \o CumSum(m, i + 1, NaN)
    ELSE <<acc + m[i]>> \o CumSum(m, i + 1, acc + m[i])
Fill0(c) == [i \in 1..Len(c) |-> IF c[i] = NaN THEN 0 ELSE c[i]]
ArgMax0(c) ==             \* 0-based index of the first maximum
    LET mx == Max({c[i] : i \in 1..Len(c)}) IN Min({i \in 1..Len(c) : c[i] = mx}) - 1
CrooAlgo(x, t) ==
    LET s == SortDesc(x, t) IN ArgMax0(Fill0(CumSum(Mask(s), 1, 0))) + s[1]
=============================================================================
