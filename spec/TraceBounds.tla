----------------------------- MODULE TraceBounds -----------------------------
(***************************************************************************)
(* C14 on the compiled kernels: (ii) every kernel compiled and run under   *)
(* NUMBA_BOUNDSCHECK=1 on boundary-sized and random in-contract inputs --   *)
(* an event per call with outcome ok | IndexError | other exception;       *)
(* (iii) every kernel run twice on output buffers pre-filled with          *)
(* different garbage -- the two results as digests.                        *)
(***************************************************************************)
EXTENDS Integers, Sequences, Json, IOUtils, TLC
Cases == JsonDeserialize(IOEnv.TRACE_FILE)
VARIABLES k, v
Verdict(c) ==
    IF ~c.incontract THEN <<"SKIP", "input-outside-the-kernel-contract", c.kernel>>
    ELSE IF c.outcome = "IndexError" THEN <<"REJECT", "InBounds", c.kernel \o ":" \o c.label>>
    ELSE IF c.outcome # "ok" THEN <<"REJECT", "NoException", c.kernel \o ":" \o c.outcome>>
    ELSE IF c.digest1 # c.digest2 THEN <<"REJECT", "EveryOutputWritten", c.kernel \o ":" \o c.label>>
    ELSE <<"ACCEPT", "", "">>
Init == k \in 1..Len(Cases) /\ v = "todo"
Next == /\ v = "todo"
        /\ LET r == Verdict(Cases[k]) IN PrintT(<<"V", k, r[1], r[2], r[3]>>) /\ v' = r[1]
        /\ UNCHANGED k
TraceSpec == Init /\ [][Next]_<<k, v>>
=============================================================================
