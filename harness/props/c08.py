"""C08 - SPI preserves the ordering of observations and never wraps or crashes.

Same specification and trace module as C07 (spec/SpiPixel.tla, TraceSpi.tla); the inputs are
the degenerate and extreme ones: outliers at ratios 1e+-k relative to the calibration data,
low-variance windows, negative values, all-nodata / all-negative / all-zero / constant pixels,
> 90% zeros, no positive value in the window -- mixed with ordinary pixels in the same cube.
Clauses: Total-NoException, NodataRule, UnfittablePixelIsNodata, Monotone, Saturates.
"""
from __future__ import annotations

import random

import numpy as np

from . import c07


def gen_cubes(tier, seed):
    rng = random.Random(seed * 60493 + 8)
    rs = np.random.RandomState(seed + 8)
    quick = tier == "quick"
    cubes = []
    for _ in range(40 if quick else 400):
        nd = rng.choice([-9999, -9999, -32768, -1, 32767])
        T = rng.choice([4, 8, 12, 24, 36])
        dtype = rng.choice(["int16", "float64", "float32"])
        base = rs.gamma(rng.choice([0.5, 2.0, 20.0]), rng.choice([5.0, 50.0]), T)
        ordinary = [float(round(v)) if dtype == "int16" else float(v) for v in base]
        kinds = rng.sample(["ordinary", "allnodata", "allneg", "negnodata", "allzero", "manyzeros", "constant", "outlier_hi", "outlier_lo", "lowvar", "nopos_in_window", "twovals", "someneg", "someneg"]
                           + (["nanzeros", "nanzeros", "somenan"] if dtype != "int16" else []), rng.randint(2, 5))
        if "ordinary" not in kinds:
            kinds[0] = "ordinary"
        st, sp = (0, T) if rng.random() < 0.5 else (0, max(2, T // 2))
        pixels = []
        for kd in kinds:
            xs = list(ordinary)
            if kd == "allnodata":
                xs = [float(nd)] * T
            elif kd == "allneg":
                xs = [-float(rng.randint(1, 50)) for _ in range(T)]
            elif kd == "negnodata":
                xs = [float(nd) if rng.random() < 0.5 else -3.0 for _ in range(T)]
            elif kd == "allzero":
                xs = [0.0] * T
            elif kd == "manyzeros":
                xs = [0.0] * T
                xs[rng.randrange(T)] = 12.0
                if T >= 24:
                    xs[rng.randrange(T)] = 30.0
            elif kd == "constant":
                xs = [37.0] * T
            elif kd == "outlier_hi":
                k = rng.randint(1, 6)
                xs[rng.randrange(sp, T) if sp < T else rng.randrange(T)] = float(min(30000, max(ordinary) * 10**k)) if dtype == "int16" else max(ordinary) * 10.0**k
            elif kd == "outlier_lo":
                pos = [v for v in ordinary if v > 0] or [1.0]
                xs[rng.randrange(T)] = 1.0 if dtype == "int16" else (min(pos) * 10.0 ** (-rng.choice([1, 3, 6, 300])) if dtype == "float64" else min(pos) * 1e-6)
            elif kd == "lowvar":
                xs = [100.0 + rng.choice([0.0, 1.0]) for _ in range(T)]
                xs[0], xs[1] = 100.0, 101.0
                xs[rng.randrange(2, T)] = rng.choice([150.0, 60.0, 103.0])
                if dtype != "int16":
                    xs = [v * 1.0 for v in xs]
            elif kd == "nopos_in_window":
                xs = [0.0 if i < sp else v for i, v in enumerate(ordinary)]
            elif kd == "someneg":      # an ordinary pixel with a few negative (invalid, but not nodata) cells and no zeros
                xs = [v if v > 0 else 1.0 for v in ordinary]
                for j in rng.sample(range(T), min(T - 2, rng.randint(2, 4))):
                    xs[j] = -float(rng.randint(1, 9))
            elif kd == "somenan":      # NaN cells in a float cube whose nodata is a number: invalid observations, like negative values
                xs = [v if v > 0 else 1.0 for v in ordinary]
                for j in rng.sample(range(T), min(T - 2, rng.randint(1, 3))):
                    xs[j] = float("nan")
            elif kd == "nanzeros":     # more than 90 % zeros among the OBSERVATIONS, at most 90 % of all cells once the NaN gaps are counted
                npos = max(1, T // 12)
                xs = [0.0] * T
                idx = rng.sample(range(T), 2 * npos)
                for j in idx[:npos]:
                    xs[j] = float(rng.randint(5, 90))
                for j in idx[npos:]:
                    xs[j] = float("nan")
            elif kd == "twovals":
                xs = [rng.choice([3.0, 8.0]) for _ in range(T)]
            if rng.random() < 0.3 and kd not in ("allnodata",):
                xs[rng.randrange(T)] = float(nd)
            pixels.append(xs)
        api = rng.choice(["yxt", "yxt", "grp", "accessor"])
        if api == "grp" and dtype == "float64":
            dtype = "float32"
        if api == "accessor":
            # every integer width the accessor may be handed (values beyond the int16 range included), not only int16
            dtype = rng.choice(["int16", "int16", "uint16", "int32", "uint8"])
            lo, hi = {"int16": (-32000, 32000), "uint16": (0, 65000), "int32": (-2_000_000_000, 2_000_000_000), "uint8": (0, 250)}[dtype]
            if dtype in ("uint16", "uint8"):
                nd2 = 9999 if dtype == "uint16" else 255
                pixels = [[float(nd2) if x == nd else x for x in px] for px in pixels]
                nd = nd2
            pixels = [[x if x == nd else float(int(round(max(lo, min(hi, x))))) for x in px] for px in pixels]
            pixels = [[x if (x == nd or x != nd) else x for x in px] for px in pixels]
            if dtype == "uint16":      # a wet outlier above the int16 range in an ordinary pixel
                j = rng.randrange(len(pixels[0]))
                if pixels[0][j] != nd:
                    pixels[0][j] = float(rng.choice([32768, 40000, 55537, 60000]))
        cubes.append((pixels, nd, st, sp, api, dtype, "+".join(kinds)))
    # low-variance calibration windows with later observations at many ratios of the mean: finite indices far
    # beyond the int16 range (tail probabilities between 1e-308 and 1e-235) as well as exact 0 / 1
    # (systematic, not sampled: every variation coefficient x every entry point x the whole ladder of ratios - the band of
    # finite-but-enormous indices is narrow and sits at a different ratio for every cv)
    ladder = [0.1, 0.2, 0.25, 0.3, 0.35, 0.4, 0.5, 0.6, 0.7, 0.8, 0.9, 1.1, 1.3, 1.6, 2.0, 3.0]
    for rep_ in range(1 if quick else 6):
        for cv in (0.01, 0.03, 0.1):
            for api in ("yxt", "grp", "accessor"):
                nd = rng.choice([-9999, -32768])
                T = 36
                sp = 24
                base = [float(round(1000 * (1 + rs.normal(0, cv)))) for _ in range(T)]
                pixels = []
                for ratio in ladder:
                    xs = list(base)
                    xs[rng.randrange(sp, T)] = float(round(1000 * ratio))
                    pixels.append(xs)
                cubes.append((pixels, nd, 0, sp, api, "int16", f"lowvar-sweep cv={cv}"))
    # other integer widths through the accessor (always present, not left to chance): unsigned 16-bit rainfall with wet outliers
    # above the int16 range, 32-bit totals, 8-bit counts
    for dtype, hi, outl in (("uint16", 400, [32768, 40000, 55537, 60000, 65000]), ("int32", 400, [40000, 70000, 2_000_000]), ("uint8", 60, [200, 250, 254])):
        for rep_ in range(1 if quick else 4):
            T = rng.choice([12, 24, 36])
            nd = {"uint16": 9999, "int32": -9999, "uint8": 255}[dtype]
            pixels = []
            for k in range(3):
                xs = [float(v) for v in rs.randint(1, hi, T)]
                xs[rng.randrange(T)] = 0.0
                for o in rng.sample(outl, 2 if k < 2 else 0):
                    xs[rng.randrange(T)] = float(o)
                if k == 1:
                    xs[rng.randrange(T)] = float(nd)
                pixels.append(xs)
            cubes.append((pixels, nd, 0, T, "accessor", dtype, f"{dtype}-outliers"))
    # the far-tail ladders of C07 (with and without a share of zeros): ordering must hold step by step around 6 sigma too
    cubes += [c for c in c07.gen_cubes(tier, seed + 1000) if len(c) > 6 and str(c[6]).startswith("tails")]
    return cubes


def run(tier, seed):
    rep = c07.run_common("C08", tier, seed, gen_cubes(tier, seed),
                         "cubes mixing an ordinary pixel with 1..4 of: all-nodata, all-negative, negative+nodata, all-zero, >90% zeros, constant, "
                         "outliers at 10^k (k<=6) above / 10^-k (k up to 300 for float64) below the calibration data, low-variance windows (100/101 with 150, 60, 103), "
                         "no positive value in the window, two-valued; int16 / float32 / float64; gammastd_yxt, gammastd_grp, accessor")
    return rep.finish()


def replay(path):
    return c07.replay(path, "C08")
