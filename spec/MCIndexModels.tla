---------------------------- MODULE MCIndexModels ----------------------------
(* all boundary sizes: under the documented contract every access is in bounds; *)
(* dropping the contract exhibits the out-of-bounds access (negative controls)  *)
EXTENDS IndexModels, TLC
CONSTANT N
ASSUME \A m \in 0..N : \A nl \in 0..N : VCurveContract(m, nl) => AllIn(VCurveAcc(m, nl))
ASSUME \A m \in 0..N : \A nl \in 0..N : \A rb \in BOOLEAN : GcvContract(m, nl) => AllIn(GcvAcc(m, nl, rb))
ASSUME \A ng \in 0..N : \A rows \in 0..N : GroupContract(ng, rows) => AllIn(GroupAcc(ng, rows))
ASSUME \A nz \in 0..N : \A Z \in SUBSET (0..N) : ZoneContract(Z, nz) => AllIn(ZoneAcc(Z, nz))
ASSUME \A nd \in 0..N : AllIn(LrooAcc(nd))
ASSUME \A n \in 1..N : AllIn(AutoAcc(n))
ASSUME \A n \in 0..N : AllIn(SenAcc(n))
\* negative controls
ASSUME ~AllIn(VCurveAcc(5, 1))          \* an srange of one entry: llas[1]
ASSUME ~AllIn(GroupAcc(3, 2))           \* a group id beyond the table
ASSUME ~AllIn(ZoneAcc({0, 4}, 4))       \* a zone id = num_zones
VARIABLE x
Init == x = 0
Next == UNCHANGED x
Spec == Init /\ [][Next]_x
=============================================================================
