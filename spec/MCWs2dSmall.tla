---------------------------- MODULE MCWs2dSmall ----------------------------
(* Ws2d over SmallRat (pure TLA+): exhaustive smallest scope *)
EXTENDS SmallRat, Sequences, FiniteSets, TLC
CONSTANTS Lens, YVals, WVals, Lams
VARIABLES y, w, lam, n, d, c, e, z, pc, i, touched
W2 == INSTANCE Ws2d WITH Add <- SAdd, Sub <- SSub, Mul <- SMul, Div <- SDiv, FromInt <- SInt

Positive(W) == Cardinality({j \in DOMAIN W : W[j] # SZero}) >= 2
Init == \E nn \in Lens : \E Y \in [1..nn -> YVals] : \E W \in [1..nn -> WVals] : \E L \in Lams :
           Positive(W) /\ W2!Init(Y, W, L)
Spec == Init /\ [][W2!Row0 \/ W2!Row1 \/ W2!Fwd \/ W2!RowM1 \/ W2!RowM \/ W2!BackM1 \/ W2!Back]_W2!vars

NoOverflow == \A k \in 0..(n - 1) : d[k] # Overflow /\ c[k] # Overflow /\ e[k] # Overflow /\ z[k] # Overflow
IndexOK == W2!IndexOK
NoWrap == W2!NoWrap
SolvesPLS == W2!SolvesPLS
Factorised == W2!Factorised
FoldedAgrees == (pc = "ret" /\ n >= 4) => W2!ZSeq = W2!Solve(W2!YSeq, W2!WSeq, lam)
\* a cell with zero weight has no influence on the solution (C02 on the core)
MaskedIndependent ==
    (pc = "ret" /\ n >= 4) =>
        \A j \in 1..n : W2!WSeq[j] = SZero =>
            \A v \in YVals : W2!Solve([W2!YSeq EXCEPT ![j] = v], W2!WSeq, lam) = W2!ZSeq
=============================================================================
