------------------------ MODULE TraceAccessorSession ------------------------
(* Recorded sessions on one real array object: in-place changes of the nodata   *)
(* attribute / the time labels interleaved with accessor calls; what each call  *)
(* used (decoded by the harness from the call's result) against                 *)
(* AccessorSession!Effective evaluated on the state walked from the events.     *)
EXTENDS Integers, Sequences, TLC, Json, IOUtils
None == "none"
AS == INSTANCE AccessorSession WITH NDVals <- {}, MaxCalls <- 0, Variant <- "live", attr <- None, order <- None, memo <- [set |-> FALSE, attr |-> None, order |-> None], last <- [op |-> None], ncalls <- 0
Cases == JsonDeserialize(IOEnv.TRACE_FILE)
VARIABLES k, v
RECURSIVE Walk(_, _, _, _)
Walk(ev, i, a, o) ==
    IF i > Len(ev) THEN <<"ACCEPT", "", ToString(Len(ev))>>
    ELSE LET e == ev[i] IN
         IF e.ev = "set" THEN Walk(ev, i + 1, e.v, o)
         ELSE IF e.ev = "relabel" THEN Walk(ev, i + 1, a, e.order)
         ELSE IF e.ev # "call" THEN <<"REJECT", "KnownEvent", e.ev>>
         ELSE LET want == AS!Effective(e.op, e.arg, a, o) IN
              IF e.obs = want THEN Walk(ev, i + 1, a, o)
              ELSE <<"REJECT", IF want = "ValueError" THEN "RefusalExpected" ELSE IF e.obs = "ValueError" THEN "NoSpuriousError" ELSE "HistoryFree",
                     e.op \o " at event " \o ToString(i) \o ": expected " \o want \o ", observed " \o e.obs>>
Init == k \in 1..Len(Cases) /\ v = "todo"
Next == /\ v = "todo"
        /\ LET r == Walk(Cases[k].events, 1, Cases[k].attr0, Cases[k].order0) IN PrintT(<<"V", k, r[1], r[2], r[3]>>) /\ v' = r[1]
        /\ UNCHANGED k
TraceSpec == Init /\ [][Next]_<<k, v>>
=============================================================================
