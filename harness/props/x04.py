"""X04 (extra) - brentq, the root finder behind the gamma fit, as a transcription (spec/Brentq.tla).

(A) MCBrentq: the transcription on monotone rational stand-ins for log(a) - digamma(a) - s over a grid of
    brackets: terminates, keeps the root bracketed, returns within tolerance of a sign change.
(B) the Python source of brentq run under a line tracer (real log / digamma): the locals at the top of every
    loop iteration are logged and TLC validates every step against Brentq!Step, the bracket invariant and
    the stopping rule; the compiled brentq must return the same root (1e-9).
"""
from __future__ import annotations

import inspect
import json
import random
import sys

import numpy as np

from .. import core

MODULE = "TraceBrentq"
VARS = ("xpre", "xcur", "xblk", "fpre", "fcur", "fblk", "spre", "scur")


def trace_source(xa, xb, s):
    from hdc.algo.ops.stats import brentq

    f = brentq.py_func
    src, first = inspect.getsourcelines(f)
    top = first + next(i for i, l in enumerate(src) if l.strip() == "iterations += 1")
    states = []

    def tracer(frame, event, arg):
        if frame.f_code is f.__code__:
            def local(fr, ev, a):
                if ev == "line" and fr.f_lineno == top:
                    states.append({k: core.rat(float(fr.f_locals[k])) for k in VARS})
                return local
            return local
        return None

    old = sys.gettrace()
    sys.settrace(tracer)
    try:
        res = f(xa, xb, s)
    finally:
        sys.settrace(old)
    return states, float(res)


def run(tier, seed):
    rep = core.Report("X04", tier, seed)
    cfg = "SPECIFICATION Spec\nCHECK_DEADLOCK FALSE\nCONSTANTS\n Ss <- SsDef\n Brackets <- BrDef\nINVARIANT BracketInv\nINVARIANT ResultOK\nINVARIANT FewIterations\nPROPERTY Terminates\n"
    defs = 'SsDef == {"1/100", "1/2", "5"}\nBrDef == {<<"1/50", "200">>, <<"3/10", "7/10">>, <<"1", "4">>, <<"1/8", "1/4">>}\n' if tier == "quick" else \
           'SsDef == {"1/100", "1/10", "1/2", "3/2", "5"}\nBrDef == {<<"1/50", "200">>, <<"1/10", "10">>, <<"3/10", "7/10">>, <<"1", "4">>, <<"2", "90">>, <<"1/8", "1/4">>}\n'
    r = core.must_pass(core.tlc("MCBrentq", cfg, defs=defs, workers=8, timeout=3000), "brentq transcription")
    rep.add_mc("MCBrentq (termination, bracket invariant, result within tolerance of a sign change)", r)
    from hdc.algo.ops.stats import brentq

    rng = random.Random(seed + 404)
    traces = []
    for i in range(60 if tier == "quick" else 600):
        s = 10 ** rng.uniform(-4, 1.3)
        a0 = (3 - s + np.sqrt((s - 3) ** 2 + 24 * s)) / (12 * s)
        lo, hi = (a0 * 0.6, a0 * 1.4) if rng.random() < 0.7 else (a0 * rng.uniform(0.05, 0.9), a0 * rng.uniform(1.1, 30))
        if rng.random() < 0.1:
            lo, hi = a0 * 1.5, a0 * 3.0       # no sign change: must return 0
        states, res = trace_source(lo, hi, s)
        jit = float(brentq(lo, hi, s))
        if not states:
            continue
        traces.append({"tid": len(traces) + 1, "states": states, "result": core.rat(res), "args": [lo, hi, s], "jit_agrees": abs(jit - res) <= 1e-9 * max(1.0, abs(res))})
    payload = [{k: t[k] for k in ("tid", "states", "result")} for t in traces]
    verdicts, st = core.validate_batch(MODULE, payload, cfg="SPECIFICATION TraceSpec\nCHECK_DEADLOCK FALSE\n", per_jvm=20, timeout=3000)
    rep.add_stats("TraceBrentq", st, len(traces))
    for t in traces:
        if not t["jit_agrees"]:
            rep.reject({"family": "brentq", **{k: t[k] for k in ("args", "result")}}, "CompiledAgreesWithSource", "")
    rep.extra.update(distinct_nontrivial=len(traces), iterations_validated=sum(len(t["states"]) for t in traces), exhaustive=False,
                     rule="s in 1e-4..20, brackets 0.6..1.4 x the starting estimate (as gammafit uses), wide brackets, brackets without a sign change")
    rep.sample({"args": traces[0]["args"], "iterations": len(traces[0]["states"]), "result": float(core.unrat(traces[0]["result"]))})
    rep.settle([dict(t, family="brentq") for t in traces], verdicts)
    return rep.finish()


def replay(path):
    v = json.loads(open(path).read())
    print("recorded run:", json.dumps(v["trace"])[:1500])
    print(f"VIOLATION property=X04 replay={path}")
    return 1
