"""C18 - run-length statistics equal the longest / current run of ones.

(A) MCRuns: lroo loop (with an output-width parameter) and the croo pipeline against the
    declarative LongestRun / CurrentRun for all binary series (and all stored orders);
    negative control: a W-bit output cell wraps.
(B) ops.lroo, hdc.algo.lroo(), hdc.algo.croo() on every series of the same scope (bulk),
    structured long series (runs up to 600, competing runs around 255/256/257), random
    series and random time permutations; TLC decides each recorded call.
"""
from __future__ import annotations

import json
import random

import numpy as np

from .. import core

MODULE = "TraceRuns"


def cfg(maxlen, maxperm, bits):
    return f"SPECIFICATION Spec\nCHECK_DEADLOCK FALSE\nCONSTANTS\n MaxLen = {maxlen}\n MaxPerm = {maxperm}\n OutBits = {bits}\nINVARIANT Holds\n"


def all_bits(n):
    ix = np.arange(2**n)
    return np.stack([(ix >> j) & 1 for j in range(n)], axis=1).astype("uint8")


def _lroo_kernel(x):
    from hdc.algo.ops import lroo

    return lroo(np.asarray(x, dtype="uint8"))


def _cube(x, t=None, dims=("time", "y", "x"), dask=False):
    import pandas as pd
    import xarray as xr

    x = np.asarray(x, dtype="uint8")
    n = len(x)
    t = list(range(1, n + 1)) if t is None else t
    times = pd.Timestamp("2000-01-01") + pd.to_timedelta(np.asarray(t) * 10, unit="D")
    shape = [1, 1, 1]
    shape[dims.index("time")] = n
    da = xr.DataArray(x.reshape(shape), dims=list(dims), coords={"time": times})
    if dask:
        da = da.chunk({d: 1 for d in dims if d != "time"})
    return da


def execute(c):
    op = c["op"]
    if op == "lroo":
        if c["api"] == "kernel":
            xa = np.asarray(c["x"], dtype="uint8")
            w = core.Watch(xa)
            c["y"] = int(_lroo_kernel(xa))
            c["inmod"] = w.changed()
        else:
            r = _cube(c["x"], dims=tuple(c.get("dims", ("time", "y", "x"))), dask=c.get("dask", False)).hdc.algo.lroo()
            c["y"] = int(np.asarray(r).reshape(-1)[0])
    elif op == "lroobulk":
        c["ys"] = np.asarray(_lroo_kernel(all_bits(c["n"]))).astype("int64").tolist()
    elif op == "croo":
        da = _cube(c["x"], c["t"], dims=tuple(c.get("dims", ("time", "y", "x"))), dask=c.get("dask", False))
        if c["tid"] % 2 == 0 and len(c["t"]) > 1:
            # history of the same object: a first call under other time labels, relabelled in place afterwards
            # (xarray keeps one accessor object per array; the result depends on the present labels only)
            real = da["time"].values.copy()
            da["time"] = real[::-1].copy()
            da.hdc.algo.croo()
            da["time"] = real
            c["primed"] = True
        elif c["tid"] % 3 == 0:
            # a time coordinate WITHOUT an index (drop_indexes, open_dataset(create_default_indexes=False)): chronological means the
            # coordinate's values, not the storage order
            da = da.drop_indexes("time")
            c["noindex"] = True
        w = core.Watch(da.data) if not c.get("dask") else core.Watch()
        r = da.hdc.algo.croo()
        c["inmod"] = w.changed()
        val = np.asarray(r).reshape(-1)[0]
        c["y"] = int(val) if float(val) == int(val) else -777
        chron = [v for _, v in sorted(zip(c["t"], c["x"]))]
        c["lroo"] = int(_lroo_kernel(chron))
    return c


def gen_cases(tier, seed):
    rng = random.Random(seed * 104729 + 18)
    quick = tier == "quick"
    cases = []

    def add(c):
        c["tid"] = len(cases) + 1
        cases.append(c)

    for n in range(1, (12 if quick else 16) + 1):
        add({"op": "lroobulk", "n": n})
    # accessor on every series up to length 6/8
    for n in range(1, (6 if quick else 8) + 1):
        for row in all_bits(n):
            add({"op": "lroo", "api": "accessor", "x": row.tolist(), "dims": rng.choice([["time", "y", "x"], ["y", "x", "time"]]), "dask": rng.random() < 0.1})
    # structured long series: single run of every length at left / right / middle
    top = 600
    step = 7 if quick else 1
    lens = sorted(set(list(range(1, top + 1, step)) + [254, 255, 256, 257, 258, 270, 511, 512, 513, 600]))
    for L in lens:
        N = rng.choice([L, L + 1, L + 5, max(L, 1000)]) if L < 600 else 1000
        N = max(N, L)
        for where in ("left", "right", "middle"):
            x = [0] * N
            a = 0 if where == "left" else (N - L if where == "right" else (N - L) // 2)
            for j in range(a, a + L):
                x[j] = 1
            add({"op": "lroo", "api": rng.choice(["kernel", "kernel", "accessor"]), "x": x})
    for a, b in [(255, 256), (256, 255), (257, 256), (256, 257), (255, 257), (300, 299), (128, 384), (2, 1), (1, 2), (1, 1)]:
        x = [1] * a + [0] + [1] * b
        add({"op": "lroo", "api": "kernel", "x": x})
        add({"op": "lroo", "api": "accessor", "x": [0] + x + [0, 1]})
    for _ in range(100 if quick else 1500):
        n = rng.randint(1, 1000)
        p = rng.choice([0.5, 0.9, 0.99, 0.999])
        add({"op": "lroo", "api": rng.choice(["kernel", "accessor"]), "x": [1 if rng.random() < p else 0 for _ in range(n)]})
    # croo: every series x every stored order up to length 4/5, then random long ones
    import itertools

    for n in range(1, (4 if quick else 6) + 1):
        perms = list(itertools.permutations(range(1, n + 1)))
        for row in all_bits(n):
            for t in perms if n <= 4 or not quick else rng.sample(perms, 10):
                add({"op": "croo", "x": row.tolist(), "t": list(t), "dims": rng.choice([["time", "y", "x"], ["y", "x", "time"]])})
    for _ in range(120 if quick else 1200):
        n = rng.randint(1, 40 if quick else 1000)
        p = rng.choice([0.5, 0.9, 0.99, 1.0])
        x = [1 if rng.random() < p else 0 for _ in range(n)]
        t = list(range(1, n + 1))
        mode = rng.choice(["shuffle", "reverse", "sorted"])
        if mode == "shuffle":
            rng.shuffle(t)
        elif mode == "reverse":
            t.reverse()
        add({"op": "croo", "x": x, "t": t, "dask": rng.random() < 0.1})
    for L in (254, 255, 256, 257, 300, 600):
        x = [0] * 3 + [1] * L
        t = list(range(1, len(x) + 1))
        add({"op": "croo", "x": x, "t": t})
        add({"op": "croo", "x": x[::-1], "t": t[::-1]})
    return cases


def describe(c):
    d = dict(c)
    for k in ("x", "t", "ys"):
        if k in d and len(d[k]) > 24:
            d[k] = f"<{len(d[k])} cells, sum={sum(d[k])}>" if k != "t" else f"<{len(d[k])} stamps>"
    return d


def run(tier, seed):
    rep = core.Report("C18", tier, seed)
    quick = tier == "quick"
    r = core.must_pass(core.tlc("MCRuns", cfg(12 if quick else 14, 5 if quick else 6, 0), workers=core.NCPU, timeout=3000, heap="6g"), "runs scope")
    rep.add_mc("MCRuns (lroo loop, croo pipeline = declarative runs; croo <= max(lroo,1))", r)
    r = core.tlc("MCRuns", cfg(9, 1, 3), workers=4, timeout=600)
    if r.violated_name() != "Holds":
        raise core.Machinery(f"negative control failed: a 3-bit output cell must wrap at run length 8\n{r.tail(20)}")
    rep.add_mc("MCRuns OutBits=3 (negative control: wrap found as expected)", r)
    cases = [execute(c) for c in gen_cases(tier, seed)]
    bulk = [c for c in cases if c["op"] == "lroobulk"]
    rest = [c for c in cases if c["op"] != "lroobulk"]
    v1, st1 = core.validate_batch(MODULE, bulk, per_jvm=4, heap="6g", timeout=3000)
    v2, st2 = core.validate_batch(MODULE, rest, per_jvm=3000, timeout=3000)
    rep.add_stats("TraceRuns bulk", st1, len(bulk))
    rep.add_stats("TraceRuns calls", st2, len(rest))
    rep.extra.update(
        bulk_series_validated=sum(len(c["ys"]) for c in bulk),
        exhaustive=True,
        distinct_nontrivial=len({json.dumps([c.get("x"), c.get("t"), c["op"], c.get("n")]) for c in cases}),
        rule="bulk: every binary series up to the tier's length on the compiled kernel; accessor on every series up to 6/8; "
        "croo on every series x stored order up to 4/6; structured runs 1..600 (left/right/middle), competing runs around 255..257, random series to 1000",
    )
    for c in bulk[:1] + rest[:2] + rest[-2:]:
        rep.sample(describe(c))
    rep.settle(bulk, v1)
    rep.settle(rest, v2)
    rep.assumptions += ["input series are uint8 0/1 cubes (the gufunc's only signature)"]
    return rep.finish()


def replay(path):
    v = json.loads(open(path).read())
    c = execute(dict(v["trace"]))
    c["tid"] = 1
    verdicts, _ = core.validate_batch(MODULE, [c], jobs=1)
    print("replayed", describe(c), "->", verdicts[1])
    if verdicts[1][0] == "REJECT":
        print(f"VIOLATION property=C18 replay={path}")
        return 1
    return 0
