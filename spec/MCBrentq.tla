------------------------------ MODULE MCBrentq ------------------------------
(* the transcription run on monotone rational functions f(x) = A/x + B/x^2 - S over a grid of     *)
(* brackets: it terminates within the iteration limit, keeps the root bracketed at every step,    *)
(* never widens the bracket, and the returned abscissa is within the tolerance of a sign change.  *)
EXTENDS Brentq
CONSTANTS Ss, Brackets
VARIABLES st, it, s, done
F(x, ss) == RSub(RAdd(RDiv("1/2", x), RDiv("1/12", RSq(x))), ss)        \* ~ log(x) - digamma(x) - s
Init == /\ \E ss \in Ss : \E br \in Brackets :
             /\ s = ss /\ it = 0 /\ done = FALSE
             /\ RLt(RMul(F(br[1], ss), F(br[2], ss)), "0")               \* a sign change inside the bracket
             /\ st = [xpre |-> br[1], xcur |-> br[2], xblk |-> "0", fpre |-> F(br[1], ss), fcur |-> F(br[2], ss), fblk |-> "0", spre |-> "0", scur |-> "0"]
Next == /\ ~done /\ it < MAXITER
        /\ LET p == Prep(st) IN
             IF Converged(p) THEN done' = TRUE /\ st' = p /\ UNCHANGED <<it, s>>
             ELSE LET b == Branch(p) IN
                  /\ st' = Step(st, F(NewX(p, b[3]), s))
                  /\ it' = it + 1 /\ UNCHANGED <<done, s>>
Spec == Init /\ [][Next]_<<st, it, s, done>> /\ WF_<<st, it, s, done>>(Next)
BracketInv == it > 0 => Bracketed(Prep(st))
ResultOK == done => /\ RLe(RMul(st.fcur, st.fblk), "0")
                    /\ RLe(Width(st), RMul("4", Delta(st))) \/ st.fcur = "0"
Terminates == <>done
FewIterations == it <= 60
=============================================================================
