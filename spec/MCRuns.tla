------------------------------- MODULE MCRuns -------------------------------
(* exhaustive small scope: all binary series up to MaxLen; for croo all      *)
(* stored orders (time permutations) up to MaxPerm                           *)
EXTENDS Runs, TLC
CONSTANTS MaxLen, MaxPerm, OutBits
VARIABLES inp, ok

Perms(n) == {f \in [1..n -> 1..n] : \A i, j \in 1..n : i # j => f[i] # f[j]}

Init == /\ ok = "todo"
        /\ \/ \E n \in 1..MaxLen : \E X \in [1..n -> {0, 1}] : inp = <<"lroo", X>>
           \/ \E n \in 1..MaxPerm : \E X \in [1..n -> {0, 1}] : \E T \in Perms(n) : inp = <<"croo", X, T>>

Eval(i) ==
    IF i[1] = "lroo"
    THEN /\ LrooAlgo(i[2], OutBits) = LongestRun(i[2])
         /\ LongestFold(i[2], 1, 0, 0) = LongestRun(i[2])
    ELSE /\ CrooAlgo(i[2], i[3]) = CurrentRun(i[2], i[3])
         /\ CurrentFold(i[2], i[3]) = CurrentRun(i[2], i[3])
         \* hence croo <= max(lroo, 1), and independence from the stored order
         /\ CurrentRun(i[2], i[3]) <= (IF LongestRun(SortDesc(i[2], i[3])) > 1 THEN LongestRun(SortDesc(i[2], i[3])) ELSE 1)

Next == ok = "todo" /\ ok' = (IF Eval(inp) THEN "yes" ELSE "no") /\ UNCHANGED inp
Spec == Init /\ [][Next]_<<inp, ok>>
Holds == ok # "no"
=============================================================================
