------------------------------- MODULE Smooth -------------------------------
(***************************************************************************)
(* The Whittaker smoothers built on ws2d (hdc/algo/ops/ws2dgu.py,          *)
(* ws2dpgu.py, ws2doptv.py, ws2doptvp.py, ws2doptvplc.py, ws2dwcv.py,      *)
(* ws2dwcvp.py) and the accessors whits / whitsvc / whitswcv.              *)
(*                                                                         *)
(* Cells are exact rationals (canonical strings) or one of the markers     *)
(* nan, inf, -inf.  All curves are exact solutions of the normal equations *)
(* (Ws2dFn!Solve, checked against Penalty!IsPLS by the MCWs2d models).     *)
(***************************************************************************)
EXTENDS BigRat, Integers, Sequences, FiniteSets, TLC

F == INSTANCE Ws2dFn WITH Add <- RAdd, Sub <- RSub, Mul <- RMul, Div <- RDiv, FromInt <- RInt
P == INSTANCE Penalty WITH Add <- RAdd, Sub <- RSub, Mul <- RMul, Div <- RDiv, FromInt <- RInt
Solve(Y, W, L) == F!Solve(Y, W, L)

IsNum(s) == s \notin {"nan", "inf", "-inf"}
N(y) == Len(y)
RECURSIVE MaxAbsRec(_, _)
MaxAbsRec(s, j) == IF j = 0 THEN "0" ELSE RMax(RAbs(s[j]), MaxAbsRec(s, j - 1))
MaxAbs(s) == MaxAbsRec(s, Len(s))

----------------------------------------------------------------------------
(* validity: which cells carry weight                                       *)
(*  "full": == nodata, NaN or infinite are missing (fixed and GCV kernels)  *)
(*  "eq"  : == nodata is missing (V-curve kernels)                          *)
Missing(x, nd, mode) == (IsNum(x) /\ IsNum(nd) /\ x = nd) \/ (mode = "full" /\ ~IsNum(x))
Weights(y, nd, mode) == [j \in 1..Len(y) |-> IF Missing(y[j], nd, mode) THEN "0" ELSE "1"]
NValid(y, nd, mode) == Cardinality({j \in 1..Len(y) : ~Missing(y[j], nd, mode)})
\* the value of a missing cell must not matter: the exact solve sees 0 there
Clean(y, wts) == [j \in 1..Len(y) |-> IF wts[j] = "0" THEN "0" ELSE y[j]]
AllNum(y, wts) == \A j \in 1..Len(y) : wts[j] # "0" => IsNum(y[j])

----------------------------------------------------------------------------
(* rounding: an int16 cell k is accepted for the exact value zs iff it is a *)
(* nearest integer up to the float64 accuracy C01 grants the solver         *)
RoundTol(scale) == RAdd("1/2", RMul("1/1000000", RMax("1", scale)))
RoundOK(kk, zs, scale) == RLe(RAbs(RSub(RInt(kk), zs)), RoundTol(scale))
InInt16(z) == \A j \in 1..Len(z) : RLt(RAbs(z[j]), "32767")
BandOK(out, z) == LET sc == MaxAbs(z) IN \A j \in 1..Len(z) : RoundOK(out[j], z[j], sc)
FirstBad(out, z) == LET sc == MaxAbs(z) IN
    CHOOSE j \in 1..Len(z) : ~RoundOK(out[j], z[j], sc) /\ \A t \in 1..(j - 1) : RoundOK(out[t], z[t], sc)

\* pass-through (lambda = 0, too few valid cells): every numeric cell unchanged
\* (a float cell is stored as its truncation, the C cast the kernels perform)
RTrunc(x) == IF RSign(x) >= 0 THEN RFloor(x) ELSE -RFloor(RNeg(x))
PassThroughOK(out, y) ==
    \A j \in 1..Len(y) : (IsNum(y[j]) /\ RLt(RAbs(y[j]), "32767")) => out[j] = RTrunc(y[j])

----------------------------------------------------------------------------
(* asymmetric (expectile) weights and the reweighting iteration             *)
Pattern(y, z, wts) == [j \in 1..Len(y) |-> IF wts[j] # "0" /\ RLt(z[j], y[j]) THEN 1 ELSE 0]
AsymW(wts, pat, p) == [j \in 1..Len(wts) |-> IF wts[j] = "0" THEN "0"
                                             ELSE RMul(wts[j], IF pat[j] = 1 THEN p ELSE RSub("1", p))]
Zeros(n) == [j \in 1..n |-> "0"]
EnvTol(z) == RMul("1/1000000", RMax("1", MaxAbs(z)))
\* is a logged envelope decision (1: above the curve) compatible with the exact curve?
HintOK(y, z, wts, hint) ==
    LET tol == EnvTol(z) IN
    \A j \in 1..Len(y) : wts[j] # "0" =>
        LET df == RSub(y[j], z[j]) IN
        /\ RLt(tol, df) => hint[j] = 1
        /\ RLt(df, RNeg(tol)) => hint[j] = 0
SamePattern(a, b, wts) == \A j \in 1..Len(wts) : wts[j] # "0" => a[j] = b[j]

\* The iteration of the asymmetric kernels, driven by the logged per-pass
\* envelope decisions `hints` (one 0/1 sequence per executed pass):
\* returns <<status, clause, z>>; status "ok" carries the curve of the last pass.
RECURSIVE ExpGo(_, _, _, _, _, _, _, _)
ExpGo(y, wts, lam, p, hints, kk, z, prevz) ==
    IF kk > Len(hints) THEN
        \* the loop ended after pass K = Len(hints): either the limit, or a break
        LET K == Len(hints) IN
        IF K >= 10 THEN <<"ok", "", z>>
        ELSE IF (K >= 2 /\ SamePattern(hints[K], hints[K - 1], wts)) \/ z = prevz THEN <<"ok", "", z>>
        ELSE <<"bad", "PassLimit", z>>
    ELSE IF kk > 10 THEN <<"bad", "PassLimit", z>>
    ELSE IF ~HintOK(y, z, wts, hints[kk]) THEN <<"bad", "EnvelopeWeight", z>>
    ELSE IF kk >= 3 /\ SamePattern(hints[kk - 1], hints[kk - 2], wts) THEN <<"bad", "MissedConvergence", z>>
    ELSE ExpGo(y, wts, lam, p, hints, kk + 1, Solve(y, AsymW(wts, hints[kk], p), lam), z)

Expectile(y, wts, lam, p, hints) == ExpGo(y, wts, lam, p, hints, 1, Zeros(Len(y)), Zeros(Len(y)))

\* without logged decisions: exact decisions, undecided when a cell sits in the tie band
RECURSIVE ExpFree(_, _, _, _, _, _, _)
ExpFree(y, wts, lam, p, kk, z, prevpat) ==
    LET tol == EnvTol(z)
        tie == \E j \in 1..Len(y) : wts[j] # "0" /\ RLe(RAbs(RSub(y[j], z[j])), tol)
        pat == Pattern(y, z, wts)
    IN  IF tie THEN <<"tie", "", z>>
        ELSE IF kk > 1 /\ pat = prevpat THEN <<"ok", "", z>>
        ELSE IF kk > 10 THEN <<"ok", "", z>>
        ELSE ExpFree(y, wts, lam, p, kk + 1, Solve(y, AsymW(wts, pat, p), lam), pat)
ExpectileFree(y, wts, lam, p) == ExpFree(y, wts, lam, p, 1, Zeros(Len(y)), Zeros(Len(y)))

----------------------------------------------------------------------------
(* CONTRACT C03: fixed lambda.  c: y, nd, lam, out, and for the asymmetric   *)
(* kernel p and hints.  Result <<kind, clause, detail>>.                     *)
\* hinted: the kernel's source was observed (its solver calls recorded); then an
\* empty hint list means it made no reweighting pass at all.
FixedVerdict(y, nd, lam, out, hasP, p, hints, hinted) ==
    LET wts == Weights(y, nd, "full")
        nv  == NValid(y, nd, "full")
    IN  IF Len(out) # Len(y) THEN <<"REJECT", "Length", "">>
        ELSE IF lam = "0" \/ nv <= 1 THEN
             (IF PassThroughOK(out, y) THEN <<"ACCEPT", "", "passthrough">> ELSE <<"REJECT", "PassThrough", "">>)
        ELSE IF Len(y) < 4 THEN <<"SKIP", "shorter-than-4", "">>
        ELSE LET yc == Clean(y, wts) IN
             IF ~hasP THEN
                 LET z == Solve(yc, wts, lam) IN
                 IF ~InInt16(z) THEN <<"SKIP", "curve-leaves-int16", "">>
                 ELSE IF BandOK(out, z) THEN <<"ACCEPT", "", "">>
                 ELSE <<"REJECT", "RoundedPLS", ToString(FirstBad(out, z))>>
             ELSE
                 LET r == IF hints = <<>> THEN ExpectileFree(yc, wts, lam, p) ELSE Expectile(yc, wts, lam, p, hints) IN
                 IF hinted /\ hints = <<>> THEN <<"REJECT", "NoReweightingPass", "">>
                 ELSE IF r[1] = "tie" THEN <<"SKIP", "envelope-tie-without-hints", "">>
                 ELSE IF r[1] = "bad" THEN <<"REJECT", r[2], "">>
                 ELSE IF ~InInt16(r[3]) THEN <<"SKIP", "curve-leaves-int16", "">>
                 ELSE IF BandOK(out, r[3]) THEN <<"ACCEPT", "", "">>
                 ELSE <<"REJECT", "RoundedExpectile", ToString(FirstBad(out, r[3]))>>
=============================================================================
