---------------------------- MODULE DekadLaws ----------------------------
(* The integer-line laws of C11, unbounded: for EVERY integer raw value (not only years 1..9999)  *)
(* the fields recombine to the raw value, idx / month / yidx stay in range, and translation by n  *)
(* commutes with the decomposition.  Checked symbolically with Apalache (no bound on r, n).       *)
EXTENDS Integers
VARIABLES
    \* @type: Int;
    r,
    \* @type: Int;
    n
Year(x)  == x \div 36
Month(x) == 1 + ((x % 36) \div 3)
Idx(x)   == 1 + (x % 3)
Yidx(x)  == 3 * (Month(x) - 1) + Idx(x)
Init == r \in Int /\ n \in Int
Next == UNCHANGED <<r, n>>
Laws ==
    /\ Idx(r) \in 1..3 /\ Month(r) \in 1..12 /\ Yidx(r) \in 1..36
    /\ 36 * Year(r) + 3 * (Month(r) - 1) + (Idx(r) - 1) = r
    /\ 36 * Year(r) + Yidx(r) - 1 = r
    /\ ((r + n) - r = n) /\ ((r + n) - n = r)
    /\ Yidx(r + 36 * n) = Yidx(r) /\ Year(r + 36 * n) = Year(r) + n
    /\ (Idx(r) < 3 => (Year(r + 1) = Year(r) /\ Month(r + 1) = Month(r) /\ Idx(r + 1) = Idx(r) + 1))
    /\ (Idx(r) = 3 /\ Month(r) < 12 => (Month(r + 1) = Month(r) + 1 /\ Idx(r + 1) = 1))
    /\ (Yidx(r) = 36 => (Year(r + 1) = Year(r) + 1 /\ Yidx(r + 1) = 1))
\* negative control: December has a third dekad, so this must be refuted
WrongLaw == Yidx(r) # 36
=============================================================================
