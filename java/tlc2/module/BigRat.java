package tlc2.module;

import java.math.BigDecimal;
import java.math.BigInteger;
import java.math.MathContext;
import java.util.HashMap;

import tlc2.value.impl.BoolValue;
import tlc2.value.impl.IntValue;
import tlc2.value.impl.StringValue;
import tlc2.value.impl.TupleValue;
import tlc2.value.impl.Value;

/**
 * Exact rational arithmetic for TLC (module override of spec/BigRat.tla).
 *
 * A rational is the canonical string "p" (integer) or "p/q" with q > 1 and
 * gcd(|p|, q) = 1.  Canonical form makes TLA+ equality on the strings coincide
 * with equality of the numbers.  Only arithmetic lives here; every kernel,
 * contract and property is TLA+.  The pure-TLA+ module SmallRat gives the
 * reference semantics of the same operator names on 32-bit numbers and
 * setup_cmd checks that both agree (spec/MCArith.tla).
 */
public class BigRat {
    public static final long serialVersionUID = 20260928L;

    private static final int CACHE_MAX = 400000;
    private static final HashMap<String, BigInteger[]> cache = new HashMap<>();

    private static synchronized BigInteger[] parse(final String s) {
        BigInteger[] r = cache.get(s);
        if (r != null) {
            return r;
        }
        final int k = s.indexOf('/');
        if (k < 0) {
            r = new BigInteger[] { new BigInteger(s), BigInteger.ONE };
        } else {
            r = norm(new BigInteger(s.substring(0, k)), new BigInteger(s.substring(k + 1)));
        }
        if (cache.size() > CACHE_MAX) {
            cache.clear();
        }
        cache.put(s, r);
        return r;
    }

    private static BigInteger[] norm(BigInteger p, BigInteger q) {
        if (q.signum() == 0) {
            throw new ArithmeticException("BigRat: zero denominator");
        }
        if (q.signum() < 0) {
            p = p.negate();
            q = q.negate();
        }
        final BigInteger g = p.gcd(q);
        if (!g.equals(BigInteger.ONE) && g.signum() != 0) {
            p = p.divide(g);
            q = q.divide(g);
        }
        return new BigInteger[] { p, q };
    }

    private static BigInteger[] of(final Value v) {
        if (v instanceof StringValue) {
            return parse(((StringValue) v).val.toString());
        }
        if (v instanceof IntValue) {
            return new BigInteger[] { BigInteger.valueOf(((IntValue) v).val), BigInteger.ONE };
        }
        throw new IllegalArgumentException("BigRat: not a rational: " + v);
    }

    private static Value mk(final BigInteger[] r) {
        final String s = r[1].equals(BigInteger.ONE) ? r[0].toString() : r[0].toString() + "/" + r[1].toString();
        synchronized (BigRat.class) {
            if (cache.size() > CACHE_MAX) {
                cache.clear();
            }
            cache.put(s, r);
        }
        return new StringValue(s);
    }

    private static int toInt(final BigInteger b, final String what) {
        if (b.bitLength() > 31) {
            throw new ArithmeticException("BigRat." + what + ": result does not fit a TLC integer: " + b);
        }
        return b.intValue();
    }

    public static Value RAdd(final Value a, final Value b) {
        final BigInteger[] x = of(a), y = of(b);
        if (x[1].equals(y[1])) {
            return mk(norm(x[0].add(y[0]), x[1]));
        }
        return mk(norm(x[0].multiply(y[1]).add(y[0].multiply(x[1])), x[1].multiply(y[1])));
    }

    public static Value RSub(final Value a, final Value b) {
        final BigInteger[] x = of(a), y = of(b);
        if (x[1].equals(y[1])) {
            return mk(norm(x[0].subtract(y[0]), x[1]));
        }
        return mk(norm(x[0].multiply(y[1]).subtract(y[0].multiply(x[1])), x[1].multiply(y[1])));
    }

    public static Value RMul(final Value a, final Value b) {
        final BigInteger[] x = of(a), y = of(b);
        return mk(norm(x[0].multiply(y[0]), x[1].multiply(y[1])));
    }

    public static Value RDiv(final Value a, final Value b) {
        final BigInteger[] x = of(a), y = of(b);
        if (y[0].signum() == 0) {
            throw new ArithmeticException("BigRat.RDiv: division by zero");
        }
        return mk(norm(x[0].multiply(y[1]), x[1].multiply(y[0])));
    }

    public static Value RNeg(final Value a) {
        final BigInteger[] x = of(a);
        return mk(new BigInteger[] { x[0].negate(), x[1] });
    }

    public static Value RAbs(final Value a) {
        final BigInteger[] x = of(a);
        return mk(new BigInteger[] { x[0].abs(), x[1] });
    }

    private static int cmp(final BigInteger[] x, final BigInteger[] y) {
        return x[0].multiply(y[1]).compareTo(y[0].multiply(x[1]));
    }

    public static Value RCmp(final Value a, final Value b) {
        return IntValue.gen(Integer.signum(cmp(of(a), of(b))));
    }

    public static Value RLt(final Value a, final Value b) {
        return cmp(of(a), of(b)) < 0 ? BoolValue.ValTrue : BoolValue.ValFalse;
    }

    public static Value RLe(final Value a, final Value b) {
        return cmp(of(a), of(b)) <= 0 ? BoolValue.ValTrue : BoolValue.ValFalse;
    }

    public static Value REq(final Value a, final Value b) {
        return cmp(of(a), of(b)) == 0 ? BoolValue.ValTrue : BoolValue.ValFalse;
    }

    public static Value RSign(final Value a) {
        return IntValue.gen(of(a)[0].signum());
    }

    public static Value RInt(final Value i) {
        return mk(of(i));
    }

    /** canonical form of an arbitrary "p/q" string (used on trace input) */
    public static Value RCanon(final Value a) {
        return mk(of(a));
    }

    public static Value RIsInt(final Value a) {
        return of(a)[1].equals(BigInteger.ONE) ? BoolValue.ValTrue : BoolValue.ValFalse;
    }

    private static BigInteger floor(final BigInteger[] x) {
        final BigInteger[] qr = x[0].divideAndRemainder(x[1]);
        return (qr[1].signum() < 0) ? qr[0].subtract(BigInteger.ONE) : qr[0];
    }

    private static BigInteger roundHE(final BigInteger[] x) {
        // nearest integer, ties to even
        final BigInteger two = BigInteger.TWO;
        final BigInteger fl = floor(x);
        // frac = x - fl in [0,1): compare 2*(p - fl*q) with q
        final BigInteger rem2 = x[0].subtract(fl.multiply(x[1])).multiply(two);
        final int c = rem2.compareTo(x[1]);
        if (c < 0) {
            return fl;
        }
        if (c > 0) {
            return fl.add(BigInteger.ONE);
        }
        return fl.testBit(0) ? fl.add(BigInteger.ONE) : fl;
    }

    public static Value RFloor(final Value a) {
        return IntValue.gen(toInt(floor(of(a)), "RFloor"));
    }

    public static Value RRoundHE(final Value a) {
        return IntValue.gen(toInt(roundHE(of(a)), "RRoundHE"));
    }

    /** nearest (ties-to-even) binary floating value with `bits` significant bits, as a rational */
    public static Value RRoundMant(final Value a, final Value bitsV) {
        final BigInteger[] x = of(a);
        final int bits = ((IntValue) bitsV).val;
        if (x[0].signum() == 0) {
            return mk(x);
        }
        // exponent e with 2^(bits-1) <= |x| / 2^e < 2^bits
        final BigInteger ap = x[0].abs();
        int e = ap.bitLength() - x[1].bitLength() - bits;
        for (int guard = 0; guard < 4; guard++) {
            final BigInteger[] sc = scale(ap, x[1], -e);
            final BigInteger fl = sc[0].divide(sc[1]);
            if (fl.bitLength() > bits) {
                e++;
            } else if (fl.bitLength() < bits) {
                e--;
            } else {
                break;
            }
        }
        final BigInteger[] sc = scale(ap, x[1], -e);
        BigInteger m = roundHE(norm(sc[0], sc[1]));
        if (x[0].signum() < 0) {
            m = m.negate();
        }
        final BigInteger[] res = scale(m, BigInteger.ONE, e);
        return mk(norm(res[0], res[1]));
    }

    private static BigInteger[] scale(final BigInteger p, final BigInteger q, final int e) {
        // (p/q) * 2^e
        return e >= 0 ? new BigInteger[] { p.shiftLeft(e), q } : new BigInteger[] { p, q.shiftLeft(-e) };
    }

    // ------------------------------------------------------------------
    // Real functions used only to RANK candidates (never where exactness is
    // the claim): evaluated through java.lang.StrictMath on the nearest
    // double, returned as the exact rational value of the resulting double.
    // ------------------------------------------------------------------
    private static final MathContext MC = new MathContext(40);

    private static double toDouble(final BigInteger[] x) {
        return new BigDecimal(x[0]).divide(new BigDecimal(x[1]), MC).doubleValue();
    }

    private static Value fromDouble(final double d, final String what) {
        if (Double.isNaN(d) || Double.isInfinite(d)) {
            throw new ArithmeticException("BigRat." + what + ": not finite");
        }
        final BigDecimal bd = new BigDecimal(d);
        final BigInteger unscaled = bd.unscaledValue();
        final int sc = bd.scale();
        if (sc <= 0) {
            return mk(new BigInteger[] { unscaled.multiply(BigInteger.TEN.pow(-sc)), BigInteger.ONE });
        }
        return mk(norm(unscaled, BigInteger.TEN.pow(sc)));
    }

    public static Value RLn(final Value a) {
        final BigInteger[] x = of(a);
        if (x[0].signum() <= 0) {
            throw new ArithmeticException("BigRat.RLn: argument not positive");
        }
        // ln(p/q) with huge p,q: use ln p - ln q through bit lengths
        final int sp = Math.max(0, x[0].bitLength() - 1000);
        final int sq = Math.max(0, x[1].bitLength() - 1000);
        final double dp = x[0].shiftRight(sp).doubleValue();
        final double dq = x[1].shiftRight(sq).doubleValue();
        return fromDouble(StrictMath.log(dp) - StrictMath.log(dq) + (sp - sq) * StrictMath.log(2.0), "RLn");
    }

    public static Value RSqrt(final Value a) {
        final BigInteger[] x = of(a);
        if (x[0].signum() < 0) {
            throw new ArithmeticException("BigRat.RSqrt: negative argument");
        }
        return fromDouble(StrictMath.sqrt(toDouble(x)), "RSqrt");
    }

    public static Value RCos(final Value a) {
        return fromDouble(StrictMath.cos(toDouble(of(a))), "RCos");
    }

    public static Value RPow10(final Value a) {
        return fromDouble(StrictMath.pow(10.0, toDouble(of(a))), "RPow10");
    }

    public static Value RLog10(final Value a) {
        final BigInteger[] x = of(a);
        if (x[0].signum() <= 0) {
            throw new ArithmeticException("BigRat.RLog10: argument not positive");
        }
        return fromDouble(StrictMath.log10(toDouble(x)), "RLog10");
    }

    /** decimal rendering for messages: <<sign*floor(|x|*10^6)>> is too lossy, so give a string */
    public static Value RShow(final Value a) {
        final BigInteger[] x = of(a);
        return new StringValue(new BigDecimal(x[0]).divide(new BigDecimal(x[1]), new MathContext(12)).toString());
    }

    // ------------------------------------------------------------------
    // Accelerators for operators that HAVE a TLA+ definition in BigRat.tla
    // (RSum, RDot): same value, evaluated without TLC's recursion overhead.
    // ------------------------------------------------------------------
    /** RSort(s) == SortSeq(s, RLt): ascending sort of a sequence of rationals (accelerator of the TLA+ definition) */
    public static Value RSort(final Value seq) {
        final TupleValue t = (TupleValue) seq.toTuple();
        final int n = t.elems.length;
        final Integer[] idx = new Integer[n];
        final BigInteger[][] vals = new BigInteger[n][];
        for (int i = 0; i < n; i++) {
            idx[i] = i;
            vals[i] = of(t.elems[i]);
        }
        java.util.Arrays.sort(idx, (a, b) -> cmp(vals[a], vals[b]));
        final Value[] out = new Value[n];
        for (int i = 0; i < n; i++) {
            out[i] = t.elems[idx[i]];
        }
        return new TupleValue(out);
    }

    public static Value RSum(final Value seq) {
        final TupleValue t = (TupleValue) seq.toTuple();
        BigInteger p = BigInteger.ZERO, q = BigInteger.ONE;
        for (final Value v : t.elems) {
            final BigInteger[] y = of(v);
            if (q.equals(y[1])) {
                p = p.add(y[0]);
            } else {
                p = p.multiply(y[1]).add(y[0].multiply(q));
                q = q.multiply(y[1]);
                final BigInteger g = p.gcd(q);
                if (g.signum() != 0 && !g.equals(BigInteger.ONE)) {
                    p = p.divide(g);
                    q = q.divide(g);
                }
            }
        }
        return mk(norm(p, q));
    }
}
