"""Confirm a sub-agent's seeded change and file it under /verif/seeded/<name>/.

usage: seeded.py confirm <prop> <src_worktree> <name>   # independent confirmation in a fresh scratch worktree
       seeded.py detect  <prop> <name> [tier]            # apply to /repo, run our check, undo
"""
import json, os, shutil, subprocess, sys, time
from pathlib import Path

VERIF = Path("/verif")


def sh(cmd, **kw):
    return subprocess.run(cmd, shell=True, capture_output=True, text=True, **kw)


def confirm(prop, src, name):
    out = VERIF / "seeded" / name
    out.mkdir(parents=True, exist_ok=True)
    for f in ("patch.diff", "demo.py", "notes.md"):
        if (Path(src) / "_out" / f).exists():
            shutil.copy(Path(src) / "_out" / f, out / f)
    wt = f"/tmp/wt/verify-{name}"
    sh(f"git -C /repo worktree remove --force {wt}")
    r = sh(f"git -C /repo worktree add -q --detach {wt} HEAD")
    assert r.returncode == 0, r.stderr
    env = dict(os.environ, PYTHONPATH=wt, PYTHONHASHSEED="0")
    res = {}
    try:
        # the demo refers to the agent's own worktree path: point it at ours
        demo = (out / "demo.py").read_text().replace(str(src), wt)
        (Path(wt) / "_demo.py").write_text(demo)
        r0 = sh(f"cd {wt} && /venv/bin/python _demo.py", env=env)
        res["demo_without_change_rc"] = r0.returncode
        ap = sh(f"git -C {wt} apply {out / 'patch.diff'}")
        res["apply_rc"] = ap.returncode
        res["files_changed"] = sh(f"git -C {wt} diff --stat").stdout.strip().splitlines()
        r1 = sh(f"cd {wt} && /venv/bin/python _demo.py", env=env)
        res["demo_with_change_rc"] = r1.returncode
        res["demo_with_change_tail"] = (r1.stdout + r1.stderr)[-600:]
        t = sh(f"cd {wt} && /venv/bin/python -m pytest -q -p no:cacheprovider tests 2>&1 | tail -3", env=env)
        res["tests_with_change"] = t.stdout.strip().splitlines()[-1] if t.stdout.strip() else t.stderr[-200:]
    finally:
        sh(f"git -C /repo worktree remove --force {wt}")
    res["confirmed"] = res.get("demo_without_change_rc") == 0 and res.get("demo_with_change_rc") == 1 and "112 passed" in res.get("tests_with_change", "") and res.get("apply_rc") == 0
    meta_p = out / "meta.json"
    meta = json.loads(meta_p.read_text()) if meta_p.exists() else {}
    meta.update({"property": prop, "name": name, "source": "independent sub-agent given only the property text and a scratch worktree", "confirmation": res})
    if (out / "notes.md").exists():
        meta["needs_to_manifest"] = (out / "notes.md").read_text()[:1500]
    meta_p.write_text(json.dumps(meta, indent=1))
    print(name, "confirmed" if res["confirmed"] else "NOT CONFIRMED", res)


def detect(prop, name, tier="quick"):
    out = VERIF / "seeded" / name
    st = sh("git -C /repo status --porcelain").stdout.strip()
    assert st == "", f"/repo not clean: {st}"
    ap = sh(f"git -C /repo apply {out / 'patch.diff'}")
    assert ap.returncode == 0, ap.stderr
    t0 = time.time()
    try:
        r = sh(f"cd /verif && VERIF_EVIDENCE_DIR=/verif/build/evidence-seeded ./check {prop} --tier {tier}")
    finally:
        sh("git -C /repo checkout -- .")
    lines = [l for l in r.stdout.splitlines() if l.startswith(("VIOLATION", "KNOWN-FINDING", "MACHINERY", f"[{prop}]"))]
    meta_p = out / "meta.json"
    meta = json.loads(meta_p.read_text()) if meta_p.exists() else {}
    meta.setdefault("detection", {})[f"{prop}:{tier}"] = {"cmd": f"./check {prop} --tier {tier}", "rc": r.returncode, "detected": r.returncode == 1, "lines": lines[:8], "wall_s": round(time.time() - t0, 1)}
    meta_p.write_text(json.dumps(meta, indent=1))
    print(name, prop, tier, "rc=", r.returncode, "DETECTED" if r.returncode == 1 else "MISSED" if r.returncode == 0 else "MACHINERY")
    for l in lines[:6]:
        print("   ", l[:220])


if __name__ == "__main__":
    if sys.argv[1] == "confirm":
        confirm(*sys.argv[2:5])
    else:
        detect(*sys.argv[2:])
