------------------------------ MODULE MCDekad ------------------------------
(* every dekad FirstRaw + Lo .. FirstRaw + Hi as its own initial state *)
EXTENDS Dekad, TLC
CONSTANTS Lo, Hi
VARIABLES r, ok
Init == r \in (FirstRaw + Lo)..(FirstRaw + Hi) /\ ok = "todo"
Next == ok = "todo" /\ ok' = (IF DekadOK(r) THEN "yes" ELSE "no") /\ UNCHANGED r
Spec == Init /\ [][Next]_<<r, ok>>
Holds == ok # "no"
\* the first and the last dekad are where the property says
Ends == FirstRaw = 36 /\ StartOrd(FirstRaw) = 1 /\ EndOrd(LastRaw) = 3652059 /\ LastRaw - FirstRaw + 1 = 359964
ASSUME Ends
=============================================================================
