------------------------------ MODULE Accessors ------------------------------
(***************************************************************************)
(* The argument contract of the xarray accessors (hdc/algo/accessors.py):  *)
(* which calls are accepted and which documented exception a rejected call *)
(* raises.  A call is abstracted to its operation name and a record of     *)
(* boolean facts about the object and the arguments; Expected gives the    *)
(* outcome: "ok" or the exception class.  The order of the rules is the    *)
(* order in which the code tests them.  (The window rules of spi are       *)
(* SpiAccessor!MustRaise, the label rules of iteragg IterAgg!MustRaise.)   *)
(* Anomalies.ratio / diff: exact arithmetic.                               *)
(***************************************************************************)
EXTENDS BigRat, Integers, Sequences, TLC

First(rules) ==     \* rules: sequence of <<condition, outcome>>; first condition that holds
    LET hit == {i \in 1..Len(rules) : rules[i][1]} IN
    IF hit = {} THEN "ok" ELSE rules[CHOOSE i \in hit : \A j \in hit : i <= j][2]

Expected(op, f) ==
    CASE op = "whits"    -> First(<< <<~f.hastime, "MissingTimeError">>, <<~f.sg /\ ~f.s, "ValueError">> >>)
      [] op = "whitsvc"  -> First(<< <<~f.hastime, "MissingTimeError">>, <<f.lc /\ ~f.p, "ValueError">>, <<~f.lc /\ ~f.srange, "ValueError">> >>)
      [] op = "whitswcv" -> First(<< <<~f.hastime, "MissingTimeError">> >>)
      [] op = "whitint"  -> First(<< <<~f.hastime, "MissingTimeError">>, <<~f.int16, "NotImplementedError">> >>)
      [] op = "spi"      -> First(<< <<~f.hastime, "MissingTimeError">>, <<~f.nodataarg /\ ~f.nodataattr, "ValueError">>,
                                     <<f.groups /\ ~f.groupslen, "ValueError">> >>)
      [] op = "croo"     -> First(<< <<~f.hastime, "MissingTimeError">> >>)
      [] op = "lroo"     -> First(<< <<~f.hastime, "MissingTimeError">> >>)
      [] op = "autocorr" -> "ok"                \* a missing nodata attribute only warns
      [] op = "mktrend"  -> "ok"
      [] op = "mean_grp" -> First(<< <<~f.hastime, "MissingTimeError">>, <<~f.nodataarg /\ ~f.nodataattr, "ValueError">>,
                                     <<~f.groupslen, "ValueError">> >>)
      [] op = "rolling_sum" -> First(<< <<~f.nodataarg /\ ~f.nodataattr, "ValueError">> >>)
      [] op = "zonal_mean"  -> First(<< <<f.dataset, "NotImplementedError">>, <<~f.nodataattr, "ValueError">>,
                                        <<~f.zonesda, "ValueError">>, <<~f.zonesnodata, "ValueError">> >>)
      [] op = "iteragg"  -> First(<< <<~f.dimexists, "ValueError">>, <<f.nzero, "AssertionError">> >>)
      [] op = "dekad"    -> First(<< <<~f.datetime, "TypeError">> >>)
      [] OTHER -> "unknown-operation"

\* Anomalies: (x + off) / (ref + off) * 100  and  (x + off) - (ref + off), cell by cell
RatioOK(x, ref, off, got) ==
    LET den == RAdd(ref, off) IN
    IF den = "0" THEN got \in {"nan", "inf", "-inf"}
    ELSE got \notin {"nan", "inf", "-inf"} /\
         LET want == RMul(RDiv(RAdd(x, off), den), "100") IN RLe(RAbs(RSub(got, want)), RMul(RMax("1", RAbs(want)), "1/1000000000000"))
DiffOK(x, ref, off, got) == got = RSub(RAdd(x, off), RAdd(ref, off))
=============================================================================
