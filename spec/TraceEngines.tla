---------------------------- MODULE TraceEngines ----------------------------
EXTENDS Engines, Json, IOUtils
Cases == JsonDeserialize(IOEnv.TRACE_FILE)
VARIABLES k, v
Verdict(c) ==
    IF c.prog \notin Programs THEN <<"REJECT", "UnknownProgram", c.prog>>
    ELSE IF c.pyexc # "" \/ c.jitexc # "" THEN
         (IF c.pyexc = c.jitexc THEN <<"ACCEPT", "", "both raise " \o c.pyexc>> ELSE <<"REJECT", "SameOutcome", c.prog \o ": py=" \o c.pyexc \o " jit=" \o c.jitexc>>)
    ELSE IF Len(c.py) # Len(c.jit) THEN <<"REJECT", "SameShape", c.prog>>
    ELSE IF Agree(c.cls, c.py, c.jit, c.raw) THEN <<"ACCEPT", "", "">>
    ELSE LET i == FirstDisagreement(c.cls, c.py, c.jit, c.raw) IN <<"REJECT", "Agree", c.prog \o " cell " \o ToString(i) \o ": py=" \o c.py[i] \o " jit=" \o c.jit[i]>>
\* generic clauses of every recorded call: the caller's arrays come back untouched; an exception is an event
Guarded(c) == IF "inmod" \in DOMAIN c /\ c.inmod THEN <<"REJECT", "InputsUnmodified", "">>
              ELSE IF "exc" \in DOMAIN c /\ c.exc # "" THEN <<"REJECT", "NoException", c.exc>>
              ELSE Verdict(c)
Init == k \in 1..Len(Cases) /\ v = "todo"
Next == /\ v = "todo"
        /\ LET r == Guarded(Cases[k]) IN PrintT(<<"V", k, r[1], r[2], r[3]>>) /\ v' = r[1]
        /\ UNCHANGED k
TraceSpec == Init /\ [][Next]_<<k, v>>
=============================================================================
