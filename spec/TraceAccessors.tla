---------------------------- MODULE TraceAccessors ----------------------------
EXTENDS Accessors, Json, IOUtils
Cases == JsonDeserialize(IOEnv.TRACE_FILE)
VARIABLES k, v
Verdict(c) ==
    IF c.op = "anom_ratio" THEN
        (IF \A i \in 1..Len(c.x) : RatioOK(c.x[i], c.ref[i], c.off, c.got[i]) THEN <<"ACCEPT", "", "">> ELSE <<"REJECT", "AnomalyRatio", "">>)
    ELSE IF c.op = "anom_diff" THEN
        (IF \A i \in 1..Len(c.x) : DiffOK(c.x[i], c.ref[i], c.off, c.got[i]) THEN <<"ACCEPT", "", "">> ELSE <<"REJECT", "AnomalyDiff", "">>)
    ELSE LET want == Expected(c.op, c.facts) IN
         IF c.outcome = want THEN <<"ACCEPT", "", want>>
         ELSE <<"REJECT", IF want = "ok" THEN "ValidCallAccepted" ELSE "DocumentedException", c.op \o ": expected " \o want \o ", got " \o c.outcome>>
Init == k \in 1..Len(Cases) /\ v = "todo"
Next == /\ v = "todo"
        /\ LET r == Verdict(Cases[k]) IN PrintT(<<"V", k, r[1], r[2], r[3]>>) /\ v' = r[1]
        /\ UNCHANGED k
TraceSpec == Init /\ [][Next]_<<k, v>>
=============================================================================
