"""X03 (extra) - a session of accessor calls against one process (spec/HdcAlgo.tla).

TLC checks the composition model (a rejected call compiles nothing; an accepted call compiles
exactly the kernels the operation dispatches to; every lazily compiled kernel reachable through an
accessor is reachable) and validates recorded sessions step by step: after every call of a fresh
process the set of filled lazycompile cells must equal the model's `compiled` set.
"""
from __future__ import annotations

import json
import os
import subprocess
import sys

from .. import core

MODULE = "TraceHdcAlgo"


def run(tier, seed):
    rep = core.Report("X03", tier, seed)
    cfg = "SPECIFICATION FairSpec\nCHECK_DEADLOCK FALSE\nINVARIANT OnlyLazyKernels\nPROPERTY Monotone\nPROPERTY AllReachable\n"
    r = core.must_pass(core.tlc("MCHdcAlgo", cfg, workers=core.NCPU, timeout=1800, heap="6g"), "session model")
    rep.add_mc("MCHdcAlgo (all sessions over 12 operations x 9 fact variants: invariants, monotone cache)", r)
    env = dict(os.environ, PYTHONPATH=f"{core.VERIF}:{core.REPO}")
    nsess = 1 if tier == "quick" else 3
    procs = [subprocess.Popen([sys.executable, "-W", "ignore", "-m", "harness.session_worker", str(core.REPO), str(seed + i), "18"], env=env, cwd=str(core.VERIF), stdout=subprocess.PIPE, stderr=subprocess.PIPE, text=True) for i in range(nsess)]
    traces = []
    for i, p in enumerate(procs):
        so, se = p.communicate(timeout=2400)
        line = [l for l in so.splitlines() if l.startswith("SESSION")]
        if not line:
            raise core.Machinery(f"session worker failed: {se[-600:]}")
        traces.append({"tid": i + 1, "events": json.loads(line[0][7:])})
    verdicts, st = core.validate_batch(MODULE, traces, cfg="SPECIFICATION TraceSpec\nCHECK_DEADLOCK FALSE\nINVARIANT Inv\n", per_jvm=10, timeout=900)
    rep.add_stats("TraceHdcAlgo", st, len(traces))
    rep.extra.update(distinct_nontrivial=sum(len(t["events"]) for t in traces), exhaustive=False, calls=sum(len(t["events"]) for t in traces),
                     kernels_compiled_at_end=[t["events"][-1]["compiled"] for t in traces],
                     rule="sessions of 18 accessor calls in a fresh process (every operation once with valid arguments + random variants incl. rejected calls), compiled set observed through the lazycompile closure cells")
    rep.sample({"first_events": [{k: e[k] for k in ("op", "outcome", "compiled")} for e in traces[0]["events"][:5]]})
    rep.settle(traces, verdicts)
    return rep.finish()


def replay(path):
    v = json.loads(open(path).read())
    print("recorded session:", json.dumps(v["trace"])[:2000])
    print(f"VIOLATION property=X03 replay={path}")
    return 1
