"""prints the prompt for a mutation sub-agent: only the property text + its scratch worktree"""
import json, sys
pid, wt = sys.argv[1], sys.argv[2]
extra = sys.argv[3] if len(sys.argv) > 3 else ""
for l in open("/verif/properties.jsonl"):
    p = json.loads(l)
    if p["id"] == pid:
        break
print(f"""You are helping to evaluate a verification effort for the Python library WFP-VAM/hdc-algo (Numba-accelerated xarray accessors: Whittaker smoothers, SPI, Mann-Kendall, dekad helpers...). Your job is to play the role of a developer who introduces a realistic, subtle regression.

You have your own scratch git worktree of the repository at {wt} . Work ONLY inside that directory. Do not read or write /repo or /verif or any other directory (apart from temporary files under {wt}). Python with all dependencies is /venv/bin/python ; because the package is installed in editable mode from another path you MUST run everything with PYTHONPATH={wt} so that your worktree's code is what is imported, e.g.
    cd {wt} && PYTHONPATH={wt} /venv/bin/python -m pytest -q -p no:cacheprovider tests
(the full suite has 112 tests and takes about 80-100 s because numba compiles kernels; there is no network).

The property that must be broken (this is all you are given; it is a semantic property users rely on):

  id: {p['id']}
  title: {p['title']}
  statement: {p['statement']}
  quantifier: {p['quantifier']['text']}
  code it is anchored in: {', '.join(p['anchors']['files'])}

Task: make ONE small, realistic change to the library source under {wt}/hdc (not to the tests) such that
  1. the package still imports/compiles and the existing test-suite still passes completely (run it and confirm: 112 passed);
  2. the property above is violated for SOME inputs, but NOT in a way ordinary use would expose at once: the change should need something specific to manifest -- an unusual input, a boundary size, a particular combination of parameters, a multi-step sequence of operations, a particular interleaving/thread schedule, or two cooperating sites that each look fine alone. Think of a plausible "optimisation", refactoring slip, off-by-one, wrong dtype, wrong comparison, dropped guard, etc. that a reviewer could miss.
  3. you can demonstrate it: write a small stand-alone program {wt}/_out/demo.py that exits 0 (prints PASS) on the unmodified code and exits 1 (prints FAIL with the offending input and outputs) on your modified code. The demo must compute its expectation independently (from the property's definition), not by comparing against a saved copy of the old code.{extra}

Deliverables, all under {wt}/_out/ :
  - patch.diff : output of `git -C {wt} diff` (source change only; keep _out/ out of the diff)
  - demo.py : as above (run with PYTHONPATH={wt} /venv/bin/python {wt}/_out/demo.py)
  - notes.md : 5-10 lines: what the change is, which inputs make it manifest and why the existing tests do not notice.
Verify yourself before finishing: (a) with the patch applied: test-suite passes and demo.py FAILs; (b) with the patch applied in reverse (`git -C {wt} apply -R {wt}/_out/patch.diff`; NEVER use `git stash`: the stash is shared between worktrees): demo.py PASSes; then re-apply your patch (`git -C {wt} apply {wt}/_out/patch.diff`) so the worktree ends in the modified state. Report the final result in a few lines (what you changed, the triggering input). Do not ask questions; make your own decisions.""")
