"""C06 - smoothers keep linear series, commute with offsets and time reversal (see c02.py)."""
from . import c02


def run(tier, seed):
    rep = c02.run_links("C06", tier, seed, ["shift", "reverse", "affine"],
                        "per variant: integer offsets of the valid cells (placeholder shifted accordingly), time reversal (fixed and V-curve variants), "
                        "exactly linear / constant series with gaps (output must be the line itself at every cell)")
    return rep.finish()


def replay(path):
    return c02.replay(path, "C06")
