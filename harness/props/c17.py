"""C17 - rolling sum and grouped mean reduce exactly the valid cells.

(A) TLC exhaustive: ReductionsMachine (loop machine, index safety, machine = function,
    function => contract), MCReductionsFn (property's own scope), negative control:
    the pinned `continue` variant violates the contract in the model.
(B) real code: the same exhaustive scope executed on the compiled kernels for every
    dtype (bulk records), the accessors, sentinel pairs, random longer series;
    every recorded call validated by TLC against spec/Reductions.tla.
"""
from __future__ import annotations

import itertools
import json
import random

import numpy as np

from .. import core

MODULE = "TraceReductions"
ND = -9
ALPHA = [ND, -2, 0, 1, 3]


DEFS = f"AlphabetDef == {{{', '.join(map(str, ALPHA))}}}\nNDDef == {ND}\n"


def _cfg_machine(maxlen, variant):
    return (
        "SPECIFICATION MCSpec\nCHECK_DEADLOCK FALSE\n"
        f"CONSTANTS\n MaxLen = {maxlen}\n Alphabet <- AlphabetDef\n ND <- NDDef\n"
        f' Variant = "{variant}"\n'
        "INVARIANT RollIndexOK\nINVARIANT RollDoneOK\nINVARIANT RollContractOK\n"
    )


def _cfg_fn(maxlen, mode, groups=3):
    return (
        "SPECIFICATION Spec\nCHECK_DEADLOCK FALSE\n"
        f"CONSTANTS\n MaxLen = {maxlen}\n Alphabet <- AlphabetDef\n ND <- NDDef\n"
        f' MaxGroups = {groups}\n Mode = "{mode}"\nINVARIANT Holds\n'
    )


def all_series(alpha, n):
    """rows in base-|A| order, position 0 fastest (the order TraceReductions!SeriesNo uses)"""
    a = np.array(alpha)
    total = len(alpha) ** n
    ix = np.arange(total)
    cols = [a[(ix // (len(alpha) ** j)) % len(alpha)] for j in range(n)]
    return np.stack(cols, axis=1)


def strs(arr):
    return [core.rat(v) for v in np.asarray(arr).ravel().tolist()]


def ints_or_big(arr):
    """integer image of float outputs for bulk records (non-integers -> a value no contract allows)"""
    a = np.asarray(arr, dtype="float64")
    bad = ~np.isfinite(a) | (a != np.round(a)) | (np.abs(a) > 1e9)
    out = np.where(bad, 1073741823, a).astype("int64")
    return out


def kernels():
    from hdc.algo.ops.stats import mean_grp, rolling_sum

    return rolling_sum, mean_grp


def execute(case):
    """(re)run the real code for a recorded case; fills the outputs in place (the error path is an event too)"""
    case["exc"] = ""
    try:
        return _execute(case)
    except Exception as ex:
        case["exc"] = type(ex).__name__
        for k in ("y", "y1", "y2"):
            case.setdefault(k, [])
        case.setdefault("ys", [])
        return case


def _execute(case):
    import xarray as xr

    rolling_sum, mean_grp = kernels()
    op = case["op"]
    if op == "roll":
        x = np.array(case["x"], dtype=case["dtype"])
        if case["api"] == "kernel":
            w_ = core.Watch(x)
            case["y"] = strs(rolling_sum(x, case["w"], case["nd"]))
            case["inmod"] = w_.changed()
        else:
            dims = case.get("dims", ["y", "x", "time"])
            shape = [1, 1, 1]
            shape[dims.index("time")] = len(x)
            da = xr.DataArray(x.reshape(shape), dims=dims)
            if case.get("dask"):
                da = da.chunk({d: 1 for d in dims if d != "time"})
            if case["tid"] % 2 == 0:
                # xarray keeps one accessor object per array: an earlier call under another nodata attribute (changed in
                # place afterwards) must leave no trace - a result depends on the array's present state and the arguments only
                da.attrs["nodata"] = STALE
                try:
                    da.hdc.rolling.sum(max(1, case["w"] - 1))
                except Exception:
                    pass
                da.attrs.pop("nodata")
                case["primed"] = True
            if case.get("attr") is not None:
                da.attrs["nodata"] = case["attr"]
            if case["tid"] % 3 == 0:          # nodata only as the array's attribute (no argument)
                da.attrs["nodata"] = case["nd"]
                case["ndmode"] = "attr"
            if case.get("ndreal") is not None:
                # the same series under a huge float sentinel (1e20, the float32 lowest, the netCDF fill value): the cells holding
                # the case's small nodata value hold the real one instead, and the real one is read back as the small one
                real = float(np.float32(case["ndreal"]))
                xr_ = x.astype("float32")
                xr_[x == case["nd"]] = real
                da = xr.DataArray(xr_.reshape(shape), dims=dims)
                r = da.hdc.rolling.sum(case["w"], nodata=real).transpose(..., "time")
                vals = np.asarray(r).reshape(-1).astype("float64")
                case["y"] = strs(np.where(vals == real, float(case["nd"]), vals))
                return case
            r = da.hdc.rolling.sum(case["w"], nodata=(None if case.get("ndmode") == "attr" else case["nd"]))
            r = r.transpose(..., "time")
            vals = np.asarray(r).reshape(-1).astype("float64")
            ndf = float(np.float32(case["nd"]))
            if ndf != float(case["nd"]):
                # a nodata value the float32 result cannot hold is echoed as its float32 image: read that image as nodata
                vals = np.where(vals == ndf, float(case["nd"]), vals)
            case["y"] = strs(vals)
    elif op == "rollpair":
        for s in ("1", "2"):
            x = np.array(case["x" + s], dtype=case["dtype"])
            case["y" + s] = strs(rolling_sum(x, case["w"], case["nd" + s]))
    elif op == "rollbulk":
        X = all_series(case["A"], case["n"]).astype(case["dtype"])
        case["ys"] = ints_or_big(rolling_sum(X, case["w"], case["nd"])).tolist()
    elif op == "meangrp":
        x = np.array(case["x"], dtype=case["dtype"])
        g = np.array(case["g"], dtype="int16")
        if case["api"] == "kernel":
            w_ = core.Watch(x, g)
            case["y"] = strs(mean_grp(x, g, case["ng"], case["nd"]))
            case["inmod"] = w_.changed()
        else:
            da = xr.DataArray(x.reshape(1, 1, -1), dims=["y", "x", "time"])
            if case.get("dask"):
                da = da.chunk({"y": 1, "x": 1})
            if case["tid"] % 2 == 0:                    # history of the same object (see rolling sum above)
                da.attrs["nodata"] = STALE
                try:
                    da.hdc.algo.mean_grp(g)
                except Exception:
                    pass
                da.attrs.pop("nodata")
                case["primed"] = True
            if case.get("attr") is not None:          # the argument must win over the attribute
                da.attrs["nodata"] = case["attr"]
            if case["tid"] % 3 == 0:                    # nodata only as the array's attribute (no argument)
                da.attrs["nodata"] = case["nd"]
                case["ndmode"] = "attr"
            r = da.hdc.algo.mean_grp(g, nodata=(None if case.get("ndmode") == "attr" else case["nd"])).transpose(..., "time")
            case["y"] = strs(np.asarray(r).reshape(-1))
    elif op == "meanpair":
        g = np.array(case["g"], dtype="int16")
        for s in ("1", "2"):
            x = np.array(case["x" + s], dtype=case["dtype"])
            case["y" + s] = strs(mean_grp(x, g, case["ng"], case["nd" + s]))
    return case


STALE = 4242


def swap_sentinel(x, nd1, nd2):
    return [nd2 if v == nd1 else v for v in x]


def gen_cases(tier, seed):
    rng = random.Random(seed * 7919 + 17)
    cases = []
    tid = [0]

    def add(c):
        tid[0] += 1
        c["tid"] = tid[0]
        cases.append(c)

    quick = tier == "quick"
    # --- (B1) the exhaustive scope on the compiled kernel, every dtype
    nmax = 6 if quick else 8
    for dtype in ("float32", "int16", "int64"):
        for n in range(1, (nmax if dtype == "float32" or quick else 7) + 1):
            for w in range(1, n + 1):
                add({"op": "rollbulk", "dtype": dtype, "A": ALPHA, "n": n, "w": w, "nd": ND})
    # ... and with the nodata value INSIDE the range of the data's partial sums (a running total that happens to equal
    # the sentinel is still a total): nodata -1 and 3 over small integers
    for alpha, nd_ in (([-1, -2, 0, 1, 3], -1), ([3, -2, 0, 1, 2], 3)):
        for n in range(1, (5 if quick else 6) + 1):
            for w in range(1, n + 1):
                add({"op": "rollbulk", "dtype": "int16" if (n + w) % 2 else "float32", "A": alpha, "n": n, "w": w, "nd": nd_})
    # wide integers through the accessor: nodata values beyond 2^24 (exact in int32 / int64 and in the float64 the kernel
    # compares with, not in float32) around small data; cells beyond 2^24 themselves are outside the float32 result's reach
    for dtype in ("int32", "int64"):
        for nd_ in (1073741001, 16777217, -16777217):
            for w in (1, 2, 3):
                add({"op": "roll", "api": "accessor", "dtype": dtype, "dims": ["y", "x", "time"], "dask": False, "x": [1, 2, nd_, nd_, 3, 4, nd_, 5], "w": w, "nd": nd_, "attr": None})
    # huge float sentinels (adding the sentinel into a total and taking it out again is not exact there)
    for real in (1e20, -3.4028234663852886e38, 9.969209968386869e36):
        for xs_ in ([ND, 1, 2, ND, ND, 3], [1, ND, 2, 3, ND], [ND, ND, 1], [2, 3, 1, ND]):
            for w in (1, 2, 3):
                add({"op": "roll", "api": "accessor", "dtype": "float32", "dims": ["y", "x", "time"], "dask": False, "x": xs_, "w": w, "nd": ND, "attr": None, "ndreal": real})
    # --- (B2) accessor (trim + dims + dask), all series up to length 4/5, all windows
    for n in range(1, (4 if quick else 5) + 1):
        S = all_series(ALPHA, n)
        for row in S[:: (3 if quick else 1)]:
            for w in range(1, n + 1):
                add(
                    {
                        "op": "roll",
                        "api": "accessor",
                        "dtype": rng.choice(["float32", "int16", "int64"]),
                        "dims": rng.choice([["y", "x", "time"], ["time", "y", "x"], ["y", "time", "x"]]),
                        "dask": rng.random() < 0.15,
                        "x": row.tolist(),
                        "w": w,
                        "nd": ND,
                        "attr": rng.choice([None, None, 12345]),
                    }
                )
    # --- (B3) sentinel pairs and random longer series
    for it_ in range(150 if quick else 1500):
        n = rng.randint(2, 12 if quick else 60) if it_ % 10 else rng.randint(100, 300)
        dtype = rng.choice(["float32", "int16", "int64"])
        hi = 3000 if dtype != "int16" else 300
        nd1, nd2 = rng.choice([(-9999, 9999), (0, -1), (-32768, 32767), (7, -7), (-9999, 0)])
        pmiss = rng.choice([0.1, 0.3, 0.6, 0.9])
        x1 = [nd1 if rng.random() < pmiss else rng.randint(-hi, hi) for _ in range(n)]
        x1 = [v if v == nd1 or v != nd2 else v + 1 for v in x1]
        w = rng.randint(1, n)
        add({"op": "rollpair", "dtype": dtype, "w": w, "x1": x1, "nd1": nd1, "x2": swap_sentinel(x1, nd1, nd2), "nd2": nd2})
        add({"op": "roll", "api": "kernel", "dtype": dtype, "x": x1, "w": w, "nd": nd1})
    # --- (B3b) long series / one very large cell: a running total since the start of the series would leave the
    #           exactly representable range of float32 although every window sum is small
    for n, dtype, hi in ((3000, "int16", 32000), (1200, "int64", 30000)) if quick else ((3000, "int16", 32000), (6000, "int16", 32000), (1200, "int64", 30000), (4000, "float32", 30000)):
        x = [(-9999 if rng.random() < 0.1 else rng.randint(20000, hi)) for _ in range(n)]
        add({"op": "roll", "api": rng.choice(["kernel", "accessor"]), "dtype": dtype, "x": x, "w": 3, "nd": -9999})
    for dtype in ("int64", "float32"):
        x = [4, 16777216, 2, 1, -9999, 1, 3, 2, 5, 7]
        add({"op": "roll", "api": "kernel", "dtype": dtype, "x": x, "w": 2, "nd": -9999})
    # --- (B4) grouped mean: all series up to length 4/5 x all labelings with k <= 3 groups
    nmg = 4 if quick else 5
    for n in range(1, nmg + 1):
        S = all_series(ALPHA, n)
        for k in range(1, min(3, n) + 1):
            for g in itertools.product(range(k), repeat=n):
                if set(g) != set(range(k)):
                    continue
                for row in S[:: (4 if quick else 1)]:
                    dtype = rng.choice(["float32", "int16", "int32", "int64"])
                    add({"op": "meangrp", "api": "kernel", "dtype": dtype, "x": row.tolist(), "g": list(g), "ng": k, "nd": ND})
    for _ in range(150 if quick else 1500):
        n = rng.randint(1, 14 if quick else 80)
        k = rng.randint(1, min(n, 36))
        g = list(range(k)) + [rng.randrange(k) for _ in range(n - k)]
        rng.shuffle(g)
        dtype = rng.choice(["float32", "int16", "int32", "int64"])
        nd1, nd2 = rng.choice([(-9999, 9999), (0, -1), (-32768, 32767), (7, -7)])
        hi = 30000 if dtype != "int16" else 3000
        pmiss = rng.choice([0.0, 0.2, 0.5, 0.9])
        x1 = [nd1 if rng.random() < pmiss else rng.randint(-hi, hi) for _ in range(n)]
        x1 = [v if v == nd1 or v != nd2 else v + 1 for v in x1]
        api = rng.choice(["kernel", "kernel", "accessor"])
        add({"op": "meangrp", "api": api, "dask": rng.random() < 0.3, "dtype": dtype, "x": x1, "g": g, "ng": k, "nd": nd1, "attr": rng.choice([None, None, -5, nd1])})
        add({"op": "meanpair", "dtype": dtype, "g": g, "ng": k, "x1": x1, "nd1": nd1, "x2": swap_sentinel(x1, nd1, nd2), "nd2": nd2})
    return cases


def describe(c):
    d = {k: v for k, v in c.items() if k not in ("ys",)}
    if "ys" in c:
        d["ys"] = f"<{len(c['ys'])} outputs>"
    return d


def model_check(rep, tier):
    quick = tier == "quick"
    r = core.must_pass(core.tlc("MCReductions", _cfg_machine(4 if quick else 5, "sumvalid"), workers=core.NCPU, coverage=True, timeout=3000, defs=DEFS), "rolling machine")
    cov = r.coverage()
    for act in ("ReductionsMachine!Outer", "ReductionsMachine!Inner"):
        if not cov.get(act):
            raise core.Machinery(f"vacuous model check: action {act} never taken ({cov})")
    rep.add_mc("ReductionsMachine sumvalid (index safety, machine=function=>contract)", r, coverage=cov)
    # negative control: the pinned kernel's loop violates the contract in the model
    r = core.tlc("MCReductions", _cfg_machine(3, "pinned"), workers=4, timeout=600, defs=DEFS)
    if r.violated_name() != "RollContractOK":
        raise core.Machinery(f"negative control failed: pinned variant should violate RollContractOK, got {r.violated_name()}\n{r.tail(20)}")
    rep.add_mc("ReductionsMachine pinned (negative control: RollContractOK violated as expected)", r)
    r = core.must_pass(core.tlc("MCReductionsFn", _cfg_fn(6 if quick else 8, "roll"), workers=core.NCPU, timeout=3000, heap="8g", defs=DEFS), "rolling fn scope")
    rep.add_mc("MCReductionsFn roll", r)
    r = core.must_pass(core.tlc("MCReductionsFn", _cfg_fn(5 if quick else 6, "grp"), workers=core.NCPU, timeout=3000, heap="8g", defs=DEFS), "mean_grp fn scope")
    rep.add_mc("MCReductionsFn grp", r)


def run(tier, seed):
    rep = core.Report("C17", tier, seed)
    model_check(rep, tier)
    cases = [execute(c) for c in gen_cases(tier, seed)]
    bulk = [c for c in cases if c["op"] == "rollbulk"]
    rest = [c for c in cases if c["op"] != "rollbulk"]
    v1, st1 = core.validate_batch(MODULE, bulk, per_jvm=8, heap="6g", timeout=3000)
    rep.add_stats("TraceReductions bulk", st1, len(bulk))
    v2, st2 = core.validate_batch(MODULE, rest, per_jvm=3000, timeout=3000)
    rep.add_stats("TraceReductions calls", st2, len(rest))
    nbulk = sum(len(c["ys"]) for c in bulk)
    rep.extra["bulk_series_validated"] = nbulk
    rep.extra["exhaustive"] = True
    rep.extra["distinct_nontrivial"] = len({json.dumps(describe(c), sort_keys=True) for c in cases})
    rep.extra["rule"] = (
        "bulk: every series over {nodata,-2,0,1,3} up to the tier's length x every window x dtype on the compiled kernel; "
        "accessor/pair/random cases drawn from VERIF_SEED; distinct = distinct recorded calls"
    )
    for c in (bulk[:1] + rest[:3] + rest[-2:]):
        rep.sample(describe(c) if c["op"] != "rollbulk" else {**describe(c), "first_outputs": c["ys"][:4]})
    rep.settle(bulk, v1)
    rep.settle(rest, v2)
    rep.assumptions += [
        "values are integers small enough that float32 sums are exact (|sum| < 2^24)",
        "TLC evaluates spec/Reductions.tla; Java override BigRat only for the rational mean comparison",
    ]
    return rep.finish()


def replay(path):
    v = json.loads(open(path).read())
    c = execute(dict(v["trace"]))
    c["tid"] = 1
    verdicts, _ = core.validate_batch(MODULE, [c], jobs=1)
    print("replayed", describe(c), "->", verdicts[1])
    if verdicts[1][0] == "REJECT":
        print(f"VIOLATION property=C17 replay={path}")
        return 1
    return 0
