----------------------------- MODULE TraceSmooth -----------------------------
(* recorded calls of the smoother kernels / accessors against spec/Smooth.tla *)
EXTENDS Smooth, Json, IOUtils

Cases == JsonDeserialize(IOEnv.TRACE_FILE)
VARIABLES k, v

\* the lambda a V-curve / GCV case reports (kernel: the float itself; accessor: snapped from sgrid)
VLopt(c) == IF ~c.sgonly THEN c.lopt ELSE IF c.sg = "-inf" THEN "0"
            ELSE SnapMid(IF c.variant = "vplc" THEN LcGrid(c.lc) ELSE c.grid, c.sg)
GLopt(c) == IF ~c.sgonly THEN c.lopt ELSE IF c.sg = "-inf" THEN "0" ELSE SnapGrid(c.grid, c.sg)
WithSgrid(c, lopt, r) ==      \* accessor: sgrid must be log10(lambda) as float32
    IF r[1] = "REJECT" \/ c.sg = "" \/ c.sgonly THEN r
    ELSE IF Sgrid32OK(c.sg, lopt) THEN r ELSE <<"REJECT", "Sgrid32", c.sg>>

\* robust GCV on degenerate residual distributions (C05): the band is a smoothed version of the
\* series, not zeros / NaN-garbage: an exactly linear (or constant) series comes back unchanged with
\* its gaps filled on the line; a flat series with isolated spikes stays within [L - 2H, L + 2H].
RobustFam(c) ==
    LET n == Len(c.y) IN
    IF Len(c.out) # n THEN <<"REJECT", "Length", "">>
    ELSE IF GridIndex(c.grid, c.lopt) = 0 THEN <<"REJECT", "InGrid", c.lopt>>
    ELSE IF c.fam \in {"const", "linear"} THEN
         (IF \A j \in 1..n : ToString(c.out[j]) = c.line[j] THEN <<"ACCEPT", "", c.fam>> ELSE <<"REJECT", "KeepsAffine", c.fam>>)
    ELSE (IF \A j \in 1..n : c.out[j] >= c.level - 2 * c.height /\ c.out[j] <= c.level + 2 * c.height
          THEN <<"ACCEPT", "", "spikes">> ELSE <<"REJECT", "NotZeroed", "">>)

Verdict(c) ==
    CASE c.inmod -> <<"REJECT", "InputsUnmodified", c.variant>>        \* the kernel wrote into the caller's array
      [] "exc" \in DOMAIN c /\ c.exc # "" -> <<"REJECT", "NoException", c.exc>>
      [] c.op = "fixed" -> FixedVerdict(c.y, c.nd, c.lam, c.out, c.hasp, c.p, c.hints, c.hinted)
      [] c.op = "vcurve" -> WithSgrid(c, VLopt(c), VCurveVerdict(c.variant, c.y, c.nd, c.grid, c.lc, c.hasp, c.p, c.out, VLopt(c), c.pats, c.hints, c.hinted, c.swept))
      [] c.op = "gcv" -> WithSgrid(c, GLopt(c), GcvVerdict(c.y, c.nd, c.grid, c.robust, c.hasp, c.p, c.out, GLopt(c), c.hints, c.hinted))
      [] c.op = "robustfam" -> RobustFam(c)
      [] OTHER -> <<"REJECT", "UnknownOp", c.op>>

\* ---- linked executions (C02 placeholder independence, C06 offset / reversal / linearity)
ModeOf(variant) == IF variant \in {"v", "vp", "vplc"} THEN "eq" ELSE "full"
NeedOf(variant) == IF variant \in {"wcv", "wcvp"} THEN 5 ELSE 2
Rev(s) == [i \in 1..Len(s) |-> s[Len(s) + 1 - i]]
MaxDiff(a, b) == LET D == {IF a[i] >= b[i] THEN a[i] - b[i] ELSE b[i] - a[i] : i \in 1..Len(a)} IN CHOOSE m \in D : \A o \in D : o <= m
Link(c) ==
    LET b == c.base  o == c.other
        n == Len(b.out)
        oo == IF c.rel = "reverse" THEN Rev(o.out) ELSE IF c.rel = "shift" THEN [i \in 1..Len(o.out) |-> o.out[i] - c.shift] ELSE o.out
        samel == IF b.sgonly THEN b.sg = o.sg ELSE b.lopt = o.lopt
    IN  IF Len(o.out) # n THEN <<"REJECT", "Length", "">>
        ELSE IF b.inmod \/ o.inmod THEN <<"REJECT", "InputsUnmodified", b.variant>>
        ELSE IF c.rel = "affine" THEN
             (IF \A j \in 1..n : ToString(o.out[j]) = c.line[j] THEN <<"ACCEPT", "", "">> ELSE <<"REJECT", "KeepsLinear", o.variant>>)
        \* too few valid cells: both come back unchanged (each echoes its own placeholder), lambda 0
        ELSE IF c.rel \in {"placeholder", "shift"} /\ NValid(b.y, b.nd, ModeOf(b.variant)) < NeedOf(b.variant) THEN
             (IF PassThroughOK(b.out, b.y) /\ PassThroughOK(o.out, o.y) /\ samel THEN <<"ACCEPT", "", "passthrough">>
              ELSE <<"REJECT", "PassThrough", b.variant>>)
        ELSE IF oo = b.out /\ samel THEN <<"ACCEPT", "", "">>
        ELSE IF b.robust THEN
             (IF samel /\ MaxDiff(oo, b.out) <= 1 /\ Cardinality({i \in 1..n : oo[i] # b.out[i]}) <= 1
              THEN <<"SKIP", "robust-rounding-tie-undecidable", "">> ELSE <<"REJECT", c.rel, b.variant>>)
        ELSE \* a difference is granted only where each side, judged alone by the exact contract, sits on a tie
             LET vb == Verdict(b)  vo == Verdict(o) IN
             IF vb[1] = "REJECT" THEN <<"REJECT", c.rel \o ":base:" \o vb[2], vb[3]>>
             ELSE IF vo[1] = "REJECT" THEN <<"REJECT", c.rel \o ":other:" \o vo[2], vo[3]>>
             ELSE IF vb[1] = "SKIP" \/ vo[1] = "SKIP" THEN <<"SKIP", "difference-outside-exact-contract", c.rel>>
             ELSE IF samel /\ MaxDiff(oo, b.out) > 1 THEN <<"REJECT", c.rel, b.variant>>
             ELSE <<"ACCEPT", "", "tie">>

Init == k \in 1..Len(Cases) /\ v = "todo"
Next == /\ v = "todo"
        /\ LET r == IF Cases[k].op = "link" THEN Link(Cases[k]) ELSE Verdict(Cases[k]) IN PrintT(<<"V", k, r[1], r[2], r[3]>>) /\ v' = r[1]
        /\ UNCHANGED k
TraceSpec == Init /\ [][Next]_<<k, v>>
=============================================================================
