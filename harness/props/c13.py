"""C13 - compiled kernels compute what their Python source says.

For each of the 35 programs (21 njit functions, 14 gufunc kernels; catalogue in spec/Engines.tla)
the Numba-compiled function and the same source executed by the interpreter (.py_func, or the
function behind lazycompile re-created over numpy dtypes, harness/interp.py) are run on the same
inputs -- all supported dtypes, boundary sizes, dtype-edge values -- and TLC decides agreement
(Engines!Agree: 1e-9 relative for float64, single precision for float32 inputs, integers equal
except at rounding ties of the source's unrounded value).
"""
from __future__ import annotations

import json
import random
import warnings

import numpy as np

from .. import core, interp

MODULE = "TraceEngines"
ND = -3000


class NpShim:
    """numpy with the unsafe store a compiled kernel performs for np.round(a, 0, int_out)"""

    def __getattr__(self, k):
        return getattr(np, k)

    @staticmethod
    def round(a, decimals=0, out=None):
        r = np.round(a, decimals)
        if out is None:
            return r
        with np.errstate(invalid="ignore"):
            out[...] = np.asarray(r).astype(out.dtype)
        return out


def flat(res, raw=False):
    """flatten a result (scalar / array / tuple) into cells + class per cell"""
    if not isinstance(res, (tuple, list)):
        res = (res,)
    cells, cls = [], []
    for a in res:
        a = np.asarray(a)
        kind = "int" if a.dtype.kind in "iub" else ("f32" if a.dtype == np.float32 else "f64")
        for v in a.reshape(-1).tolist():
            cells.append(core.rat(v))
            cls.append(kind)
    return cells, cls


def programs(rng, quick):
    """yield (prog, label, jit_call, py_call, out_specs) ; out_specs for gufuncs: [(shape, dtype)]"""
    from hdc.algo import ops
    from hdc.algo.ops import stats, zonal
    import importlib
    ac = importlib.import_module("hdc.algo.ops.autocorr")
    from hdc.algo.ops.ws2d import ws2d
    from hdc.algo.ops.ws2doptvp import _ws2doptvp
    from hdc.algo.ops.ws2doptvplc import ws2doptvplc_tyx
    from hdc.algo.ops.ws2dwcvp import _ws2dwcvp

    def series(n, gaps=0.2, lo=100, hi=3000):
        return np.array([ND if rng.random() < gaps else rng.randint(lo, hi) for _ in range(n)], dtype="float64")

    out = []

    def nj(prog, label, f, *args, f32=False):
        out.append((prog, label, "njit", f, args, None, f32))

    def lz(prog, label, wrapper, *args, f32=False):
        out.append((prog, label, "lazy", wrapper, args, None, f32))

    def gu(prog, label, wrapper, args, outs, f32=False):
        out.append((prog, label, "gufunc", wrapper, args, outs, f32))
        if label not in strided_done.setdefault(prog, set()) and len(strided_done[prog]) < (3 if quick else 12):
            # the same call with every array argument a non-contiguous view (every other cell of a junk-filled buffer):
            # the interpreter honours strides, a compiled kernel with a contiguous-array signature would not
            strided_done[prog].add(label)
            out.append((prog, label + ",strided", "gufunc-strided", wrapper, args, outs, f32))

    strided_done = {}

    # degenerate series first (before anything else has compiled the helpers): nothing valid at all, or a single
    # observation in the first / the last cell - divisions by a zero count must end the same way in both engines
    for n in (4, 9):
        for kind in ("allmissing", "onlyfirst", "onlylast"):
            yi = np.full(n, ND, dtype="int16")
            if kind == "onlyfirst":
                yi[0] = 500
            elif kind == "onlylast":
                yi[-1] = 500
            yf = yi.astype("float64")
            yf[yi == ND] = np.nan
            lab = f"n={n},{kind}"
            nj("autocorr_1d_int", lab, ac.autocorr_1d_int, yi, ND)
            nj("autocorr_1d_float", lab, ac.autocorr_1d_float, yf)
            nj("autocorr_1d", lab, ac.autocorr_1d, yi, ND)
            lz("autocorr", lab, ops.autocorr, yi.reshape(1, 1, n), ND, f32=True)
            lz("autocorr_tyx", lab, ops.autocorr_tyx, yi.reshape(n, 1, 1), ND, f32=True)
            gu("lroo", lab, ops.lroo, ((yi > 100).astype("uint8"),), [((), "uint32")])
            for dt in ("int16", "float32"):
                gu("_mann_kendall_trend_gu_nd", lab + f",{dt}", stats._mann_kendall_trend_gu_nd, (yi.astype(dt), ND), [((), "float32"), ((), "float32"), ((), "float32"), ((), "int8")], f32=True)
            gu("rolling_sum", lab, stats.rolling_sum, (yi, 2, ND), [((n,), "float32")], f32=True)
            gu("mean_grp", lab, stats.mean_grp, (yi, np.array([i % 2 for i in range(n)], dtype="int16"), 2, ND), [((n,), "float32")], f32=True)
            nj("gammastd_yxt", lab, stats.gammastd_yxt, yi.reshape(1, 1, n), ND, 0, n)
    # long int16 series: group sums and window sums far beyond 2^24 (single precision stops being exact there)
    for n in (1500, 4000):
        yl = np.array([32767] * (n // 3) + [1] * (n - 2 * (n // 3)) + [-32767] * (n // 3), dtype="int16")
        gl = np.zeros(n, dtype="int16")
        gu("mean_grp", f"n={n},long,cancel", stats.mean_grp, (yl, gl, 1, ND), [((n,), "float32")], f32=True)
        yl2 = np.array([32767] * (n // 3) + [1] * (n - n // 3), dtype="int16")
        gu("mean_grp", f"n={n},long", stats.mean_grp, (yl2, gl, 1, ND), [((n,), "float32")], f32=True)
        gu("rolling_sum", f"n={n},long", stats.rolling_sum, (yl2, 1000, ND), [((n,), "float32")], f32=True)
        nj("autocorr_1d_int", f"n={n},long", ac.autocorr_1d_int, yl2, ND)
    # a few counts of spread on a large offset: the variance and covariance terms subtract huge, nearly equal numbers, so any
    # re-association or fused multiply-add in compiled code is amplified by mean^2 / variance
    offs = [("10000+1spike,n=360", np.array([10000] * 200 + [10001] + [10000] * 159, dtype="int16")),
            ("30000pm1,n=36", np.array([30000 + (1 if (i * 7) % 5 < 2 else -1 if (i * 7) % 5 == 3 else 0) for i in range(36)], dtype="int16")),
            ("10000pm3,gaps,n=90", np.array([ND if i % 11 == 4 else 10000 + ((i * i) % 7) - 3 for i in range(90)], dtype="int16")),
            ("1e6pm3,int32,n=120", np.array([1000000 + ((i * 13) % 7) - 3 for i in range(120)], dtype="int32"))]
    for lab, yo in offs:
        n = len(yo)
        yf = yo.astype("float64")
        yf[yo == ND] = np.nan
        nj("autocorr_1d_int", lab, ac.autocorr_1d_int, yo, ND)
        nj("autocorr_1d_float", lab, ac.autocorr_1d_float, yf)
        nj("autocorr_1d", lab, ac.autocorr_1d, yo, ND)
        if yo.dtype == np.int16:
            lz("autocorr", lab, ops.autocorr, yo.reshape(1, 1, n), ND, f32=True)
            lz("autocorr_tyx", lab, ops.autocorr_tyx, yo.reshape(n, 1, 1), ND, f32=True)
            gu("mean_grp", lab, stats.mean_grp, (yo, np.array([i % 3 for i in range(n)], dtype="int16"), 3, ND), [((n,), "float32")], f32=True)
            gu("_mann_kendall_trend_gu_nd", lab, stats._mann_kendall_trend_gu_nd, (yo, ND), [((), "float32"), ((), "float32"), ((), "float32"), ((), "int8")], f32=True)
    reps = 2 if quick else 12
    for _ in range(reps):
        for n in ([4, 5, 9, 24] if quick else [4, 5, 9, 24, 60]):
            y = series(n)
            if (y != ND).sum() < 2:
                y[:2] = [500, 700]
            yi = y.astype("int16")
            w = (y != ND).astype("float64")
            sr = np.array([-1.0, 0.0, 1.0, 2.0])
            lab = f"n={n}"
            nj("ws2d", lab, ws2d, y, 10.0, w)
            nj("ws2d", lab + ",lam=1e-3", ws2d, y, 1e-3, w)
            yc = np.where(w == 0, 0.0, y)
            nj("_ws2doptvp", lab, _ws2doptvp, yc, w, 0.9, sr)
            if w.sum() > 4:
                nj("_ws2dwcvp", lab, _ws2dwcvp, yc, w, 0.9, sr, bool(rng.getrandbits(1)))
            lz("ws2doptvplc_tyx", lab, ws2doptvplc_tyx, yi.reshape(n, 1, 1), 0.9, ND)
            # many rows: the compiled kernel runs its row loop in parallel (prange), the interpreter one row after the other
            cube = np.stack([np.where(yi == ND, ND, yi + 37 * r - 11 * c_) for r in range(24) for c_ in range(2)], axis=1).reshape(n, 24, 2).astype("int16")
            lz("ws2doptvplc_tyx", lab + ",rows=24", ws2doptvplc_tyx, cube, 0.9, ND)
            gu("ws2dgu", lab, ops.ws2dgu, (y, rng.choice([0.0, 0.5, 10.0, 1e3]), ND), [((n,), "int16")])
            if n >= 5:      # cells the fixed and GCV kernels must mask: NaN, +inf, -inf
                for bad in (np.nan, np.inf, -np.inf):
                    yb = y.copy()
                    yb[rng.randrange(n)] = bad
                    if (np.isfinite(yb) & (yb != ND)).sum() > 5 or n == 5:
                        tag = lab + f",cell={bad}"
                        gu("ws2dgu", tag, ops.ws2dgu, (yb, 10.0, ND), [((n,), "int16")])
                        gu("ws2dpgu", tag, ops.ws2dpgu, (yb, 10.0, ND, 0.9), [((n,), "int16")])
                        gu("ws2dwcv", tag, ops.ws2dwcv, (yb, ND, sr, False), [((n,), "int16"), ((), "float64")])
                        gu("ws2dwcvp", tag, ops.ws2dwcvp, (yb, ND, 0.9, sr, True), [((n,), "int16"), ((), "float64")])
            gu("ws2dpgu", lab, ops.ws2dpgu, (y, rng.choice([0.5, 10.0]), ND, rng.choice([0.1, 0.9])), [((n,), "int16")])
            gu("ws2doptv", lab, ops.ws2doptv, (y, ND, sr), [((n,), "int16"), ((), "float64")])
            gu("ws2doptvp", lab, ops.ws2doptvp, (y, ND, 0.9, sr), [((n,), "int16"), ((), "float64")])
            gu("ws2doptvplc", lab, ops.ws2doptvplc, (yi, ND, 0.9, rng.choice([0.2, 0.8, np.nan])), [((n,), "int16"), ((), "float64")])
            for rb in (False, True):
                gu("ws2dwcv", lab + f",robust={rb}", ops.ws2dwcv, (y, ND, sr, rb), [((n,), "int16"), ((), "float64")])
                gu("ws2dwcvp", lab + f",robust={rb}", ops.ws2dwcvp, (y, ND, 0.9, sr, rb), [((n,), "int16"), ((), "float64")])
            # statistics
            for dt in ("int16", "float32", "int64"):
                xs = yi.astype(dt)
                gu("rolling_sum", lab + f",{dt}", stats.rolling_sum, (xs, rng.randint(1, n), ND), [((n,), "float32")], f32=True)
            bigx = np.where(yi == ND, ND, 12000 + (yi % 900)).astype("int16")      # window sums beyond the int16 range
            gu("rolling_sum", lab + ",int16-edge", stats.rolling_sum, (bigx, min(n, 4), ND), [((n,), "float32")], f32=True)
            g = np.array([i % 3 for i in range(n)], dtype="int16")
            for dt in ("float32", "int16", "int32", "int64"):
                xs = yi.astype(dt)
                gu("mean_grp", lab + f",{dt}", stats.mean_grp, (xs, g, 3, ND), [((n,), "float32")], f32=True)
            big = np.where(yi == ND, ND, 30000 + (yi % 2000)).astype("int16")       # sums beyond the int16 range
            gu("mean_grp", lab + ",int16-edge", stats.mean_grp, (big, g, 3, ND), [((n,), "float32")], f32=True)
            rain = np.where(yi == ND, ND, np.abs(yi) % 300).astype("int16")
            cal = np.array([[0, int((g == k).sum())] for k in range(3)], dtype="int16")
            gu("gammastd_grp", lab + ",int16", stats.gammastd_grp, (rain, g, 3, ND, cal), [((n,), "int16")])
            gu("gammastd_grp", lab + ",float32", stats.gammastd_grp, (rain.astype("float32"), g, 3, ND, cal), [((n,), "int16")], f32=True)
            nj("gammastd_yxt", lab, stats.gammastd_yxt, rain.reshape(1, 1, n), ND, 0, n)
            nj("gammastd", lab, stats.gammastd, rain.astype("float64"), float(ND), 0, n)
            pos = rain[rain > 0].astype("float64")
            if len(set(pos.tolist())) >= 2:
                nj("gammafit", lab, stats.gammafit, pos)
            for dt in ("int16", "float32"):
                xs = yi.astype(dt)
                gu("_mann_kendall_trend_gu", lab + f",{dt}", stats._mann_kendall_trend_gu, (xs,), [((), "float32"), ((), "float32"), ((), "float32"), ((), "int8")], f32=True)
                gu("_mann_kendall_trend_gu_nd", lab + f",{dt}", stats._mann_kendall_trend_gu_nd, (xs, ND), [((), "float32"), ((), "float32"), ((), "float32"), ((), "int8")], f32=True)
            nj("mann_kendall_trend_1d", lab, stats.mann_kendall_trend_1d, yi)
            nj("mk_score", lab, stats.mk_score, yi)
            nj("mk_variance_s", lab, stats.mk_variance_s, yi)
            nj("mk_sens_slope", lab, stats.mk_sens_slope, yi.astype("float64"))
            nj("mann_kendall_trend_yxt", lab, stats.mann_kendall_trend_yxt, yi.reshape(1, 1, n), f32=True)
            # autocorr
            yf = y.copy()
            yf[y == ND] = np.nan
            nj("autocorr_1d_int", lab, ac.autocorr_1d_int, yi, ND)
            nj("autocorr_1d_float", lab, ac.autocorr_1d_float, yf)
            nj("autocorr_1d_float", lab + ",f32", ac.autocorr_1d_float, yf.astype("float32"), f32=True)
            nj("autocorr_1d", lab, ac.autocorr_1d, yi, ND)
            lz("autocorr", lab, ops.autocorr, yi.reshape(1, 1, n), ND, f32=True)
            lz("autocorr_tyx", lab, ops.autocorr_tyx, yi.reshape(n, 1, 1), ND, f32=True)
            # lroo, zonal, tinterpolate
            gu("lroo", lab, ops.lroo, ((yi > 1500).astype("uint8"),), [((), "uint32")])
            zr = np.array([[i % 3 for i in range(n)]], dtype="int32")
            lz("do_mean", lab, zonal.do_mean, yi.reshape(1, 1, n), zr, 3, ND, 255, np.float32, f32=True)
            lz("do_mean", lab + ",f64", zonal.do_mean, yi.reshape(1, 1, n).astype("float64"), zr, 3, ND, 255, np.float64)
        lin = np.array([100.0 + 7 * t for t in range(9)])
        gu("ws2doptv", "linear", ops.ws2doptv, (lin, ND, np.array([-1.0, 0.0, 1.0])), [((9,), "int16"), ((), "float64")])
        gu("ws2doptvp", "linear", ops.ws2doptvp, (lin, ND, 0.9, np.array([-1.0, 0.0, 1.0])), [((9,), "int16"), ((), "float64")])
        nobs = rng.choice([3, 5, 8])
        tm = np.zeros((nobs - 1) * 5 + 1)
        tm[::5] = 1
        labs = (np.arange(tm.size) // 10).astype("int32")
        x = np.array([rng.randint(0, 3000) for _ in range(nobs)], dtype="int16")
        gu("tinterpolate", f"nobs={nobs}", ops.tinterpolate, (x, tm, labs, np.zeros(len(np.unique(labs)), dtype="u1")), [((len(np.unique(labs)),), "int16")])
        s_ = rng.uniform(0.01, 2.0)
        a0 = (3 - s_ + np.sqrt((s_ - 3) ** 2 + 24 * s_)) / (12 * s_)
        nj("brentq", f"s={s_:.4f}", stats.brentq, a0 * 0.6, a0 * 1.4, s_)
        nj("mk_z_score", "scalars", stats.mk_z_score, rng.randint(-40, 40), rng.uniform(1, 400))
        nj("mk_p_value", "scalars", stats.mk_p_value, rng.uniform(-4, 4))
    return out


def run_pair(entry):
    prog, label, kind, f, args, outs, f32 = entry
    rec = {"prog": prog, "label": label, "pyexc": "", "jitexc": "", "py": [], "jit": [], "cls": [], "raw": []}
    if kind == "gufunc-strided":
        kind = "gufunc"

        def copy(a):
            res = []
            for x in a:
                if isinstance(x, np.ndarray) and x.ndim >= 1:
                    big = np.full(x.shape[:-1] + (2 * x.shape[-1] + 1,), 77, dtype=x.dtype)
                    big[..., 1::2] = x
                    x = big[..., 1::2]
                res.append(x)
            return tuple(res)
    else:
        copy = lambda a: tuple(x.copy() if isinstance(x, np.ndarray) else x for x in a)  # noqa: E731
    with warnings.catch_warnings(), np.errstate(all="ignore"):
        warnings.simplefilter("ignore")
        try:
            rj = f(*copy(args))
            rec["jit"], rec["cls"] = flat(rj)
        except Exception as ex:
            rec["jitexc"] = type(ex).__name__
        try:
            if kind in ("njit", "lazy"):
                fn, _ = interp.rebuild(f, extra={"np": NpShim()})
                rp = fn(*copy(args))
                rec["py"], _ = flat(_like(rp, rj) if not rec["jitexc"] else rp)
            else:
                fn, _ = interp.rebuild(f, extra={"np": NpShim()})
                bufs = [np.zeros(s if s != () else (1,), dtype=("float64" if np.dtype(d).kind in "iu" else d)) for s, d in outs]
                fn(*copy(args), *bufs)
                rec["raw"] = [core.rat(v) for b in bufs for v in np.asarray(b).reshape(-1).tolist()]
                cast = tuple(interp.cast_store(b, d) if np.dtype(d).kind in "iu" else np.asarray(b) for b, (s, d) in zip(bufs, outs))
                rec["py"], _ = flat(cast)
        except Exception as ex:
            rec["pyexc"] = type(ex).__name__
    if f32:
        rec["cls"] = ["f32" if c == "f64" else c for c in rec["cls"]]
    return rec


def _like(rp, rj):
    """interpreted results as arrays of the compiled results' dtypes (tuple-wise)"""
    if not isinstance(rj, (tuple, list)):
        return np.asarray(rp).astype(np.asarray(rj).dtype) if np.asarray(rj).dtype.kind == "f" else rp
    return tuple(np.asarray(a).astype(np.asarray(b).dtype) if np.asarray(b).dtype.kind == "f" else a for a, b in zip(rp, rj))


def m_intoverflow(trace, clause):
    """known finding C13-F1: mean_grp source accumulates in the input's integer type under the interpreter"""
    return trace.get("prog") == "mean_grp" and "int16" in trace.get("label", "") and clause == "Agree"


def m_logzero(trace, clause):
    """known finding C13-F2: math.log(0) raises in the interpreter, is -inf compiled (perfect fit in the V-curve kernels)"""
    return trace.get("prog") in ("ws2doptv", "ws2doptvp", "ws2doptvplc", "_ws2doptvp", "ws2doptvplc_tyx") and clause == "SameOutcome" and trace.get("pyexc") == "ValueError" and trace.get("jitexc") == ""


def run(tier, seed):
    rep = core.Report("C13", tier, seed, level="translation_validation")
    rep.matchers["c13_mean_grp_int_overflow"] = m_intoverflow
    rep.matchers["c13_log_zero_domain"] = m_logzero
    rng = random.Random(seed * 1299709 + 13)
    entries = programs(rng, tier == "quick")
    cases = []
    for i, e in enumerate(entries):
        c = run_pair(e)
        c["tid"] = i + 1
        cases.append(c)
    verdicts, st = core.validate_batch(MODULE, cases, per_jvm=400, timeout=3000)
    rep.add_stats("TraceEngines", st, len(cases))
    progs = sorted({c["prog"] for c in cases})
    rep.extra.update(
        programs=len(progs), program_names=progs,
        disagreements_checked=sum(len(c["py"]) for c in cases),
        distinct_nontrivial=len({(c["prog"], c["label"], json.dumps(c["jit"])) for c in cases}),
        rule="35 programs x sizes 4,5,9,24 (quick) / ..60, every gufunc signature dtype, int16 sums beyond the int16 range, float32 inputs, robust on/off, lc incl. NaN; "
        "paired runs: compiled vs Python source in the interpreter",
    )
    if len(progs) != 35:
        raise core.Machinery(f"catalogue incomplete: {len(progs)} programs exercised")
    for c in cases[:2] + cases[-2:]:
        rep.sample({k: (v if not isinstance(v, list) else v[:6]) for k, v in c.items()})
    rep.settle(cases, verdicts)
    rep.assumptions += ["the interpreter runs the kernels' own source (py_func / __wrapped__) with numba type names mapped to numpy dtypes and the compiled store semantics for np.round(a, 0, int_out)",
                        "callee kernels inside a source (e.g. ws2d inside the smoothers) stay compiled: each program's own translation is what is compared"]
    ev = rep.finish()
    return ev


def replay(path):
    v = json.loads(open(path).read())
    print("recorded pair:", {k: (x if not isinstance(x, list) else x[:8]) for k, x in v["trace"].items()})
    print(f"VIOLATION property=C13 replay={path}")
    return 1
