----------------------------- MODULE TraceSmooth -----------------------------
(* recorded calls of the smoother kernels / accessors against spec/Smooth.tla *)
EXTENDS Smooth, Json, IOUtils

Cases == JsonDeserialize(IOEnv.TRACE_FILE)
VARIABLES k, v

\* the lambda a V-curve / GCV case reports (kernel: the float itself; accessor: snapped from sgrid)
VLopt(c) == IF ~c.sgonly THEN c.lopt ELSE IF c.sg = "-inf" THEN "0"
            ELSE SnapMid(IF c.variant = "vplc" THEN LcGrid(c.lc) ELSE c.grid, c.sg)
GLopt(c) == IF ~c.sgonly THEN c.lopt ELSE IF c.sg = "-inf" THEN "0" ELSE SnapGrid(c.grid, c.sg)
WithSgrid(c, lopt, r) ==      \* accessor: sgrid must be log10(lambda) as float32
    IF r[1] = "REJECT" \/ c.sg = "" \/ c.sgonly THEN r
    ELSE IF Sgrid32OK(c.sg, lopt) THEN r ELSE <<"REJECT", "Sgrid32", c.sg>>

\* robust GCV on degenerate residual distributions (C05): the band is a smoothed version of the
\* series, not zeros / NaN-garbage: an exactly linear (or constant) series comes back unchanged with
\* its gaps filled on the line; a flat series with isolated spikes stays within [L - 2H, L + 2H].
RobustFam(c) ==
    LET n == Len(c.y) IN
    IF Len(c.out) # n THEN <<"REJECT", "Length", "">>
    ELSE IF GridIndex(c.grid, c.lopt) = 0 THEN <<"REJECT", "InGrid", c.lopt>>
    ELSE IF c.fam \in {"const", "linear"} THEN
         (IF \A j \in 1..n : ToString(c.out[j]) = c.line[j] THEN <<"ACCEPT", "", c.fam>> ELSE <<"REJECT", "KeepsAffine", c.fam>>)
    ELSE (IF \A j \in 1..n : c.out[j] >= c.level - 2 * c.height /\ c.out[j] <= c.level + 2 * c.height
          THEN <<"ACCEPT", "", "spikes">> ELSE <<"REJECT", "NotZeroed", "">>)

Verdict(c) ==
    CASE c.op = "fixed" -> FixedVerdict(c.y, c.nd, c.lam, c.out, c.hasp, c.p, c.hints, c.hinted)
      [] c.op = "vcurve" -> WithSgrid(c, VLopt(c), VCurveVerdict(c.variant, c.y, c.nd, c.grid, c.lc, c.hasp, c.p, c.out, VLopt(c), c.pats, c.hints, c.hinted, c.swept))
      [] c.op = "gcv" -> WithSgrid(c, GLopt(c), GcvVerdict(c.y, c.nd, c.grid, c.robust, c.hasp, c.p, c.out, GLopt(c), c.hints, c.hinted))
      [] c.op = "robustfam" -> RobustFam(c)
      [] OTHER -> <<"REJECT", "UnknownOp", c.op>>

Init == k \in 1..Len(Cases) /\ v = "todo"
Next == /\ v = "todo"
        /\ LET r == Verdict(Cases[k]) IN PrintT(<<"V", k, r[1], r[2], r[3]>>) /\ v' = r[1]
        /\ UNCHANGED k
TraceSpec == Init /\ [][Next]_<<k, v>>
=============================================================================
