"""validate MANIFEST.json and evidence/*.json against the given schemas (run with python3-vt)"""
import glob, json, sys, jsonschema
ok = True
m = json.load(open("/verif/MANIFEST.json"))
jsonschema.validate(m, json.load(open("/root/.vp/MANIFEST.schema.json")))
es = json.load(open("/root/.vp/EVIDENCE.schema.json"))
for f in sorted(glob.glob("/verif/evidence/*.json")):
    try:
        jsonschema.validate(json.load(open(f)), es)
    except Exception as e:
        ok = False
        print("INVALID", f, str(e)[:300])
ids = [c["property_id"] for c in m["checks"]] + [c["property_id"] for c in m.get("not_applicable", [])]
assert sorted(ids) == [f"C{i:02d}" for i in range(1, 21)], ids
print("manifest ok;", len(m["checks"]), "checks;", len(glob.glob('/verif/evidence/*.json')), "evidence files", "ok" if ok else "WITH ERRORS")
sys.exit(0 if ok else 1)
