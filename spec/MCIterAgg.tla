----------------------------- MODULE MCIterAgg -----------------------------
(* the property's exhaustive scope: axis lengths 1..MaxLen (labels 10,20,..), *)
(* n in 1..len+1, begin/end on the axis, between steps, before, after, or     *)
(* absent, every lookup method                                                *)
EXTENDS IterAgg, TLC
CONSTANT MaxLen

AxisOf(N) == [i \in 1..N |-> 10 * i]
Labels(N) == {None} \cup {5 * j : j \in 1..(2 * N + 1)}     \* 5 = before, 10 = first, 15 = between ...
Methods == {"exact", "ffill", "bfill", "nearest"}

MCInit == \E N \in 1..MaxLen : \E nn \in 1..(N + 1) : \E b \in Labels(N) : \E e \in Labels(N) :
             \E m \in Methods : Start(AxisOf(N), nn, b, e, m)
MCSpec == MCInit /\ [][Next]_vars

\* recursive and declarative window definitions agree
WindowsAgree ==
    pc = "done" => \A k \in 1..Len(out) : out[k] \in WindowSet(Len(axis), beginIx - 1, endIx, n) \/ Variant = "pinned"
Terminates == <>(pc \in {"done", "raised"})
=============================================================================
