---------------------------- MODULE MCReductions ----------------------------
(* exhaustive small scope for the rolling_sum state machine *)
EXTENDS ReductionsMachine, TLC
CONSTANTS MaxLen, Alphabet, ND

MCInit == \E n \in 1..MaxLen : \E X \in [1..n -> Alphabet] : \E W \in 1..n : RollInit(X, W, ND)
MCSpec == MCInit /\ [][RollNext]_rvars
=============================================================================
