------------------------ MODULE TraceAccessorOutputs ------------------------
(* Recorded results of accepted accessor calls against AccessorOutputs!Expected. *)
EXTENDS AccessorOutputs, Json, IOUtils
Cases == JsonDeserialize(IOEnv.TRACE_FILE)
VARIABLES k, v
SetOf(s) == {s[i] : i \in 1..Len(s)}
Norm(in) == [in EXCEPT !.attrs = SetOf(in.attrs)]
VarClause(w, g) ==       \* w: expected variable, g: recorded variable
    IF g.var # w.var THEN "Variables"
    ELSE IF g.dims # w.dims THEN "Dims"
    ELSE IF g.sizes # w.sizes THEN "Extents"
    ELSE IF g.dtype # w.dtype THEN "Dtype"
    ELSE IF g.adtype # w.dtype THEN "AnnouncedDtype"
    ELSE IF g.name # w.name THEN "Name"
    ELSE IF SetOf(g.attrs) # w.attrs THEN "AttrKeys"
    ELSE IF g.nodata # w.nodata THEN "NodataAttr"
    ELSE IF g.coordsok # "yes" THEN "CoordsKept"
    ELSE "ok"
Verdict(c) ==
    IF c.outcome # "ok" THEN <<"REJECT", "ValidCallAccepted", c.op \o ": " \o c.outcome>>
    ELSE LET want == Expected(c.op, Norm(c.in)) IN
         IF want = <<>> THEN <<"REJECT", "KnownOperation", c.op>>
         ELSE IF Len(want) # Len(c.out) THEN <<"REJECT", "Variables", c.op>>
         ELSE LET bad == {i \in 1..Len(want) : VarClause(want[i], c.out[i]) # "ok"} IN
              IF bad = {} THEN <<"ACCEPT", "", c.op>>
              ELSE LET i == CHOOSE i \in bad : \A j \in bad : i <= j IN <<"REJECT", VarClause(want[i], c.out[i]), c.op \o ":" \o want[i].var>>
Init == k \in 1..Len(Cases) /\ v = "todo"
Next == /\ v = "todo"
        /\ LET r == Verdict(Cases[k]) IN PrintT(<<"V", k, r[1], r[2], r[3]>>) /\ v' = r[1]
        /\ UNCHANGED k
TraceSpec == Init /\ [][Next]_<<k, v>>
=============================================================================
