------------------------------- MODULE Smooth -------------------------------
(***************************************************************************)
(* The Whittaker smoothers built on ws2d (hdc/algo/ops/ws2dgu.py,          *)
(* ws2dpgu.py, ws2doptv.py, ws2doptvp.py, ws2doptvplc.py, ws2dwcv.py,      *)
(* ws2dwcvp.py) and the accessors whits / whitsvc / whitswcv.              *)
(*                                                                         *)
(* Cells are exact rationals (canonical strings) or one of the markers     *)
(* nan, inf, -inf.  All curves are exact solutions of the normal equations *)
(* (Ws2dFn!Solve, checked against Penalty!IsPLS by the MCWs2d models).     *)
(***************************************************************************)
EXTENDS BigRat, Integers, Sequences, FiniteSets, TLC

F == INSTANCE Ws2dFn WITH Add <- RAdd, Sub <- RSub, Mul <- RMul, Div <- RDiv, FromInt <- RInt
P == INSTANCE Penalty WITH Add <- RAdd, Sub <- RSub, Mul <- RMul, Div <- RDiv, FromInt <- RInt
Solve(Y, W, L) == F!Solve(Y, W, L)

IsNum(s) == s \notin {"nan", "inf", "-inf"}
\* materialise a function-defined sequence once (TLC re-evaluates [i \in S |-> e] at every application)
Mat(s) == s \o <<>>
N(y) == Len(y)
RECURSIVE MaxAbsRec(_, _)
MaxAbsRec(s, j) == IF j = 0 THEN "0" ELSE RMax(RAbs(s[j]), MaxAbsRec(s, j - 1))
MaxAbs(s) == MaxAbsRec(s, Len(s))

----------------------------------------------------------------------------
(* validity: which cells carry weight                                       *)
(*  "full": == nodata, NaN or infinite are missing (fixed and GCV kernels)  *)
(*  "eq"  : == nodata is missing (V-curve kernels)                          *)
Missing(x, nd, mode) == (IsNum(x) /\ IsNum(nd) /\ x = nd) \/ (mode = "full" /\ ~IsNum(x))
Weights(y, nd, mode) == Mat([j \in 1..Len(y) |-> IF Missing(y[j], nd, mode) THEN "0" ELSE "1"])
NValid(y, nd, mode) == Cardinality({j \in 1..Len(y) : ~Missing(y[j], nd, mode)})
\* the value of a missing cell must not matter: the exact solve sees 0 there
Clean(y, wts) == Mat([j \in 1..Len(y) |-> IF wts[j] = "0" THEN "0" ELSE y[j]])
AllNum(y, wts) == \A j \in 1..Len(y) : wts[j] # "0" => IsNum(y[j])

----------------------------------------------------------------------------
(* rounding: an int16 cell k is accepted for the exact value zs iff it is a *)
(* nearest integer up to the float64 accuracy C01 grants the solver         *)
RoundTol(scale) == RAdd("1/2", RMul("1/1000000", RMax("1", scale)))
RoundOK(kk, zs, scale) == RLe(RAbs(RSub(RInt(kk), zs)), RoundTol(scale))
InInt16(z) == \A j \in 1..Len(z) : RLt(RAbs(z[j]), "32767")
BandOK(out, z) == LET sc == MaxAbs(z) IN \A j \in 1..Len(z) : RoundOK(out[j], z[j], sc)
FirstBad(out, z) == LET sc == MaxAbs(z) IN
    CHOOSE j \in 1..Len(z) : ~RoundOK(out[j], z[j], sc) /\ \A t \in 1..(j - 1) : RoundOK(out[t], z[t], sc)

\* pass-through (lambda = 0, too few valid cells): every numeric cell unchanged
\* (a float cell is stored as its truncation, the C cast the kernels perform)
RTrunc(x) == IF RSign(x) >= 0 THEN RFloor(x) ELSE -RFloor(RNeg(x))
PassThroughOK(out, y) ==
    \A j \in 1..Len(y) : (IsNum(y[j]) /\ RLt(RAbs(y[j]), "32767")) => out[j] = RTrunc(y[j])

----------------------------------------------------------------------------
(* asymmetric (expectile) weights and the reweighting iteration             *)
Pattern(y, z, wts) == [j \in 1..Len(y) |-> IF wts[j] # "0" /\ RLt(z[j], y[j]) THEN 1 ELSE 0]
AsymW(wts, pat, p) == Mat([j \in 1..Len(wts) |-> IF wts[j] = "0" THEN "0"
                                             ELSE RMul(wts[j], IF pat[j] = 1 THEN p ELSE RSub("1", p))])
Zeros(n) == Mat([j \in 1..n |-> "0"])
EnvTol(z) == RMul("1/1000000", RMax("1", MaxAbs(z)))
\* is a logged envelope decision (1: above the curve) compatible with the exact curve?
HintOK(y, z, wts, hint) ==
    LET tol == EnvTol(z) IN
    \A j \in 1..Len(y) : wts[j] # "0" =>
        LET df == RSub(y[j], z[j]) IN
        /\ RLt(tol, df) => hint[j] = 1
        /\ RLt(df, RNeg(tol)) => hint[j] = 0
SamePattern(a, b, wts) == \A j \in 1..Len(wts) : wts[j] # "0" => a[j] = b[j]

\* The iteration of the asymmetric kernels, driven by the logged per-pass
\* envelope decisions `hints` (one 0/1 sequence per executed pass):
\* returns <<status, clause, z>>; status "ok" carries the curve of the last pass.
RECURSIVE ExpGo(_, _, _, _, _, _, _, _)
ExpGo(y, wts, lam, p, hints, kk, z, prevz) ==
    IF kk > Len(hints) THEN
        \* the loop ended after pass K = Len(hints): either the limit, or a break
        LET K == Len(hints) IN
        IF K >= 10 THEN <<"ok", "", z>>
        ELSE IF (K >= 2 /\ SamePattern(hints[K], hints[K - 1], wts)) \/ z = prevz THEN <<"ok", "", z>>
        ELSE <<"bad", "PassLimit", z>>
    ELSE IF kk > 10 THEN <<"bad", "PassLimit", z>>
    ELSE IF ~HintOK(y, z, wts, hints[kk]) THEN <<"bad", "EnvelopeWeight", z>>
    ELSE IF kk >= 3 /\ SamePattern(hints[kk - 1], hints[kk - 2], wts) THEN <<"bad", "MissedConvergence", z>>
    ELSE ExpGo(y, wts, lam, p, hints, kk + 1, Solve(y, AsymW(wts, hints[kk], p), lam), z)

Expectile(y, wts, lam, p, hints) == ExpGo(y, wts, lam, p, hints, 1, Zeros(Len(y)), Zeros(Len(y)))

\* without logged decisions: exact decisions, undecided when a cell sits in the tie band
RECURSIVE ExpFree(_, _, _, _, _, _, _)
ExpFree(y, wts, lam, p, kk, z, prevpat) ==
    LET tol == EnvTol(z)
        tie == \E j \in 1..Len(y) : wts[j] # "0" /\ RLe(RAbs(RSub(y[j], z[j])), tol)
        pat == Pattern(y, z, wts)
    IN  IF tie THEN <<"tie", "", z>>
        ELSE IF kk > 1 /\ pat = prevpat THEN <<"ok", "", z>>
        ELSE IF kk > 10 THEN <<"ok", "", z>>
        ELSE ExpFree(y, wts, lam, p, kk + 1, Solve(y, AsymW(wts, pat, p), lam), pat)
ExpectileFree(y, wts, lam, p) == ExpFree(y, wts, lam, p, 1, Zeros(Len(y)), Zeros(Len(y)))

----------------------------------------------------------------------------
(* CONTRACT C03: fixed lambda.  c: y, nd, lam, out, and for the asymmetric   *)
(* kernel p and hints.  Result <<kind, clause, detail>>.                     *)
\* hinted: the kernel's source was observed (its solver calls recorded); then an
\* empty hint list means it made no reweighting pass at all.
FixedVerdict(y, nd, lam, out, hasP, p, hints, hinted) ==
    LET wts == Weights(y, nd, "full")
        nv  == NValid(y, nd, "full")
    IN  IF Len(out) # Len(y) THEN <<"REJECT", "Length", "">>
        ELSE IF lam = "0" \/ nv <= 1 THEN
             (IF PassThroughOK(out, y) THEN <<"ACCEPT", "", "passthrough">> ELSE <<"REJECT", "PassThrough", "">>)
        ELSE IF Len(y) < 4 THEN <<"SKIP", "shorter-than-4", "">>
        ELSE LET yc == Clean(y, wts) IN
             IF ~hasP THEN
                 LET z == Solve(yc, wts, lam) IN
                 IF ~InInt16(z) THEN <<"SKIP", "curve-leaves-int16", "">>
                 ELSE IF BandOK(out, z) THEN <<"ACCEPT", "", "">>
                 ELSE <<"REJECT", "RoundedPLS", ToString(FirstBad(out, z))>>
             ELSE
                 LET r == IF hints = <<>> THEN ExpectileFree(yc, wts, lam, p) ELSE Expectile(yc, wts, lam, p, hints) IN
                 IF hinted /\ hints = <<>> THEN <<"REJECT", "NoReweightingPass", "">>
                 ELSE IF r[1] = "tie" THEN <<"SKIP", "envelope-tie-without-hints", "">>
                 ELSE IF r[1] = "bad" THEN <<"REJECT", r[2], "">>
                 ELSE IF ~InInt16(r[3]) THEN <<"SKIP", "curve-leaves-int16", "">>
                 ELSE IF BandOK(out, r[3]) THEN <<"ACCEPT", "", "">>
                 ELSE <<"REJECT", "RoundedExpectile", ToString(FirstBad(out, r[3]))>>

----------------------------------------------------------------------------
(* V-CURVE (C04).  grid: sequence of log10-lambda values (rationals);       *)
(* curves[i]: the exact curve at grid value i.                              *)
Lam(g) == RPow10(g)
FitOf(y, wts, z) == P!WRSS(y, z, [j \in 1..Len(wts) |-> RSq(wts[j])])      \* sum (w (y - z))^2
PenOf(z) == P!Roughness(z)
\* ordinate i (between grid values i and i+1); all logs through RLn (ranking only)
VOrd(fits, pens, grid, i) ==
    LET df == RSub(RLn(fits[i + 1]), RLn(fits[i]))
        dp == RSub(RLn(pens[i + 1]), RLn(pens[i]))
    IN  RDiv(RSqrt(RAdd(RSq(df), RSq(dp))), RMul(RLn("10"), RSub(grid[2], grid[1])))
Mid(grid, i) == RDiv(RAdd(grid[i], grid[i + 1]), "2")
NearLog(a, b) == RLe(RAbs(RSub(a, b)), "1/1000000000")            \* two log10-lambda values agree
\* index of the midpoint the reported lambda sits on (0 if none)
MidIndex(grid, lopt) ==
    LET lg == RLog10(lopt)
        S == {i \in 1..(Len(grid) - 1) : NearLog(lg, Mid(grid, i))}
    IN  IF S = {} THEN 0 ELSE CHOOSE i \in S : TRUE
\* through the accessor lambda is visible only as sgrid = float32(log10 lambda): snap it to the
\* midpoint (resp. grid value) it denotes; "0" stays, anything else that fits no point is returned as is
Near32(a, b) == RLe(RAbs(RSub(a, b)), RMul(RMax("1", RAbs(b)), "1/2000000"))
SnapMid(grid, sg) == LET S == {i \in 1..(Len(grid) - 1) : Near32(sg, Mid(grid, i))} IN
                     IF S = {} THEN RPow10(sg) ELSE Lam(Mid(grid, CHOOSE i \in S : TRUE))
SnapGrid(grid, sg) == LET S == {i \in 1..Len(grid) : Near32(sg, grid[i])} IN
                      IF S = {} THEN RPow10(sg) ELSE Lam(grid[CHOOSE i \in S : TRUE])
RECURSIVE MinOrd(_, _, _)
MinOrd(v, i, best) == IF i > Len(v) THEN best ELSE MinOrd(v, i + 1, RMin(best, v[i]))
TieBand == "1000001/1000000"
NoisyBand == "101/100"      \* selection among candidates within 1 % where the fit term is only known to ~1e-4 (see VSelect)
\* curves for the symmetric V-curve: plain PLS at every grid value
PlsCurves(y, wts, grid) == Mat([i \in 1..Len(grid) |-> Solve(y, wts, Lam(grid[i]))])
\* curves for the asymmetric V-curve: expectile fixed points certified from the logged final
\* envelope pattern of each grid value (pats[i]); "" when the pattern is not a fixed point
FixedPoint(y, wts, lam, p, pat) ==
    LET z == Solve(y, AsymW(wts, pat, p), lam) IN IF HintOK(y, z, wts, pat) THEN z ELSE <<>>
ExpCurves(y, wts, grid, p, pats) == Mat([i \in 1..Len(grid) |-> FixedPoint(y, wts, Lam(grid[i]), p, pats[i])])

\* result <<kind, clause, detail>> for the selection part
VSelect(y, wts, grid, curves, lopt) ==
    IF \E i \in 1..Len(curves) : curves[i] = <<>> THEN <<"SKIP", "sweep-not-converged-at-some-grid-value", "">>
    ELSE LET fits == Mat([i \in 1..Len(grid) |-> FitOf(y, wts, curves[i])])
             pens == Mat([i \in 1..Len(grid) |-> PenOf(curves[i])])
             \* share of the fit term in the total sum of squares.  A float64 residual y - z carries an absolute error of a few
             \* ulp of |y|, so a fit term at a share s is known to the code only to about 1e-15 / sqrt(s) relative: below 1e-22
             \* the criterion is rounding noise (SKIP); between 1e-22 and 1e-12 (ladders reaching down to lambda ~ 1e-10) it is
             \* accurate to 1e-4 or better and selection is judged with the wider tie band NoisyBand; above 1e-12 with TieBand.
             tot  == RMax("1", FitOf(y, wts, Zeros(Len(y))))
             low(i, thr) == RLt(RDiv(fits[i], tot), thr)
         IN  IF \E i \in 1..Len(grid) : fits[i] = "0" \/ pens[i] = "0" \/ low(i, "1/10000000000000000000000")
             THEN <<"SKIP", "degenerate-criterion", "">>
             ELSE LET kk == MidIndex(grid, lopt) IN
                  IF kk = 0 THEN <<"REJECT", "Midpoint", RShow(RLog10(lopt))>>
                  ELSE LET v == Mat([i \in 1..(Len(grid) - 1) |-> VOrd(fits, pens, grid, i)])
                           mn == MinOrd(v, 2, v[1])
                           noisy == \E i \in 1..Len(grid) : low(i, "1/1000000000000")
                           band == IF noisy THEN NoisyBand ELSE TieBand IN
                       IF RLe(v[kk], RMul(mn, band)) THEN <<"ACCEPT", "", IF noisy THEN "noisy-band" ELSE ToString(kk)>>
                       ELSE <<"REJECT", "VMin", ToString(kk)>>

\* uniform ascending grid?
UniformGrid(grid) == /\ Len(grid) >= 2 /\ RLt(grid[1], grid[2])
                     /\ \A i \in 1..(Len(grid) - 1) : NearLog(RSub(grid[i + 1], grid[i]), RSub(grid[2], grid[1]))
\* the grid the autocorrelation variant must use: -2..1.0 step 0.2 where lc > 0.5, 0..3.0 elsewhere (NaN included)
LcGrid(lc) == IF lc # "nan" /\ RLt("1/2", lc) THEN [i \in 1..16 |-> RDiv(RInt(i - 11), "5")]
              ELSE [i \in 1..16 |-> RDiv(RInt(i - 1), "5")]

\* whole V-curve verdict.  variant \in {"v", "vp", "vplc"}; pats: per grid value the final envelope
\* pattern logged from the source (vp, vplc); fhints: passes of the final fit (as for FixedVerdict)
VCurveVerdict(variant, y, nd, grid0, lc, hasP, p, out, lopt, pats, fhints, hinted, swept) ==
    LET wts == Weights(y, nd, "eq")
        nv  == NValid(y, nd, "eq")
        grid == IF variant = "vplc" THEN LcGrid(lc) ELSE grid0
    IN  IF nv <= 1 THEN
            (IF lopt = "0" /\ PassThroughOK(out, y) THEN <<"ACCEPT", "", "passthrough">> ELSE <<"REJECT", "PassThrough", "">>)
        ELSE IF Len(y) < 4 \/ ~UniformGrid(grid) \/ ~AllNum(y, wts) THEN <<"SKIP", "outside-contract", "">>
        ELSE IF ~IsNum(lopt) \/ ~RLt("0", lopt) THEN <<"REJECT", "Midpoint", "lambda not positive">>
        \* the autocorrelation variant must sweep the grid its lc selects (the sweep is logged from the source)
        ELSE IF variant = "vplc" /\ hinted /\ swept # <<>> /\
                (Len(swept) # Len(grid) \/ \E i \in 1..Len(grid) : ~NearLog(swept[i], grid[i])) THEN <<"REJECT", "GridByLc", ToString(Len(swept))>>
        ELSE IF hasP /\ Len(pats) # Len(grid) THEN <<"SKIP", "no-sweep-patterns-logged", "">>
        ELSE LET yc == Clean(y, wts)
                 curves == IF hasP THEN ExpCurves(yc, wts, grid, p, pats) ELSE PlsCurves(yc, wts, grid)
                 sel == VSelect(yc, wts, grid, curves, lopt)
                 band == FixedVerdict(y, nd, lopt, out, hasP, p, fhints, hinted)
             IN  IF sel[1] = "REJECT" THEN sel
                 ELSE IF band[1] = "REJECT" THEN <<"REJECT", "BandIsFixed:" \o band[2], band[3]>>
                 ELSE IF sel[1] = "SKIP" THEN sel
                 ELSE IF band[1] = "SKIP" THEN band
                 ELSE sel
\* sgrid of the accessor: log10(lopt) as float32
Sgrid32OK(sg, lopt) == IF lopt = "0" THEN sg = "-inf" ELSE IsNum(sg) /\ RLe(RAbs(RSub(sg, RLog10(lopt))), RMul(RMax("1", RAbs(RLog10(lopt))), "1/4194304"))

----------------------------------------------------------------------------
(* GCV (C05) *)
\* eigenvalues used by the kernels: e_0 = 1e-15, e_i = -2 + 2 cos(i pi / m), i = 1..m-1
PiR == "884279719003555/281474976710656"
Eig(i, m) == IF i = 0 THEN "1/1000000000000000" ELSE RAdd("-2", RMul("2", RCos(RDiv(RMul(RInt(i), PiR), RInt(m)))))
GcvScore(y, wts, lam, z) ==
    LET m == Len(y)
        T(j) == RDiv(wts[j], RAdd(wts[j], RMul(lam, RSq(Eig(j - 1, m)))))
        trH == P!FSum(T, 1, m)
        nw == P!FSum(LAMBDA j : wts[j], 1, m)
    IN  RDiv(P!WRSS(y, z, wts), RMul(nw, RSq(RSub("1", RDiv(trH, nw)))))
GridIndex(grid, lopt) ==
    LET lg == RLog10(lopt)  S == {i \in 1..Len(grid) : NearLog(lg, grid[i])} IN IF S = {} THEN 0 ELSE CHOOSE i \in S : TRUE

GcvVerdict(y, nd, grid, robust, hasP, p, out, lopt, fhints, hinted) ==
    LET wts == Weights(y, nd, "full")
        nv  == NValid(y, nd, "full")
    IN  IF nv <= 4 THEN
            (IF lopt = "0" /\ PassThroughOK(out, y) THEN <<"ACCEPT", "", "passthrough">> ELSE <<"REJECT", "PassThrough", "">>)
        ELSE IF Len(grid) < 1 THEN <<"SKIP", "outside-contract", "">>
        ELSE IF ~IsNum(lopt) \/ ~RLt("0", lopt) THEN <<"REJECT", "InGrid", "lambda not positive">>
        ELSE IF GridIndex(grid, lopt) = 0 THEN <<"REJECT", "InGrid", RShow(RLog10(lopt))>>
        ELSE IF robust THEN <<"ACCEPT", "", "robust: grid membership only (see the linked clauses)">>
        ELSE LET yc == Clean(y, wts)
                 sc == Mat([i \in 1..Len(grid) |-> GcvScore(yc, wts, Lam(grid[i]), Solve(yc, wts, Lam(grid[i])))])
                 mn == MinOrd(sc, 2, sc[1])
                 kk == GridIndex(grid, lopt)
                 band == FixedVerdict(y, nd, lopt, out, hasP, p, fhints, hinted)
                 \* share of the residual sum of squares at the smallest grid value (see VSelect for the two thresholds)
                 share == RDiv(P!WRSS(yc, Solve(yc, wts, Lam(grid[1])), wts), RMax("1", P!WRSS(yc, Zeros(Len(y)), wts)))
                 tb == IF RLt(share, "1/1000000000000") THEN NoisyBand ELSE TieBand
             IN  IF RLt(share, "1/10000000000000000000000")
                 THEN <<"SKIP", "degenerate-criterion", "">>
                 ELSE IF ~RLe(sc[kk], RMul(mn, tb)) THEN <<"REJECT", "GcvMin", ToString(kk)>>
                 ELSE IF band[1] = "REJECT" THEN <<"REJECT", "BandIsFixed:" \o band[2], band[3]>>
                 ELSE band
=============================================================================
