"""pytest plugin (load with -p harness.pytest_recorder): records every call the repository's own
tests make to the public kernels, so that the existing tests run with the specification's
assertions instead of their pinned numbers (harness/props/x02.py).  Add-only monkeypatching of
module attributes inside the test process; nothing in /repo is edited."""
from __future__ import annotations

import json
import os

import numpy as np

OUT = os.environ.get("VERIF_RECORD_FILE")
TARGETS = {
    "hdc.algo.ops": ["ws2dgu", "ws2dpgu", "ws2doptv", "ws2doptvp", "ws2doptvplc", "ws2dwcv", "ws2dwcvp", "lroo", "tinterpolate", "autocorr", "autocorr_tyx"],
    "hdc.algo.ops.stats": ["rolling_sum", "mean_grp", "gammastd_yxt", "gammastd_grp", "_mann_kendall_trend_gu", "_mann_kendall_trend_gu_nd"],
    "hdc.algo.ops.zonal": ["do_mean"],
}
_fh = None


def _enc(a):
    if isinstance(a, np.ndarray):
        return {"nd": True, "dtype": str(a.dtype), "shape": list(a.shape), "data": [None if (isinstance(v, float) and v != v) else (("inf" if v > 0 else "-inf") if isinstance(v, float) and v in (float("inf"), float("-inf")) else v) for v in a.reshape(-1).tolist()]}
    if isinstance(a, (np.generic,)):
        return a.item()
    if isinstance(a, type):
        return {"type": a.__name__}
    if isinstance(a, (list, tuple)):
        return [_enc(x) for x in a]
    return a


def _wrap(modname, name, fn):
    def rec(*args, **kw):
        res = fn(*args, **kw)
        try:
            if _fh is not None and not kw:
                _fh.write(json.dumps({"fn": name, "args": [_enc(np.asarray(a) if hasattr(a, "__array__") and not isinstance(a, np.ndarray) else a) for a in args], "res": _enc(res if not isinstance(res, tuple) else list(res))}, default=str) + "\n")
                _fh.flush()
        except Exception:
            pass
        return res

    rec.__wrapped_by_verif__ = True
    for attr in ("py_func", "__wrapped__", "__name__", "__doc__"):
        if hasattr(fn, attr):
            try:
                setattr(rec, attr, getattr(fn, attr))
            except Exception:
                pass
    return rec


def pytest_configure(config):
    global _fh
    if not OUT:
        return
    import importlib

    _fh = open(OUT, "w")
    for modname, names in TARGETS.items():
        mod = importlib.import_module(modname)
        for n in names:
            f = getattr(mod, n, None)
            if f is not None and not getattr(f, "__wrapped_by_verif__", False):
                setattr(mod, n, _wrap(modname, n, f))


def pytest_unconfigure(config):
    if _fh is not None:
        _fh.close()
