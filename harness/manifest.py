"""Generates /verif/MANIFEST.json from one table (run: /venv/bin/python -m harness.manifest)."""
import json
from pathlib import Path

VERIF = Path(__file__).resolve().parent.parent
ALL = [f"C{i:02d}" for i in range(1, 21)]

MC = "model_checking"

CHECKS = {
    "C17": dict(
        engine="tlc-reductions",
        technique="TLC exhaustive model check of spec/Reductions*.tla + TLC validation of recorded kernel/accessor calls (exhaustive bulk scope replayed on the compiled code)",
        text=(
            "TLC explores the rolling_sum loop machine (index safety, machine = function, function => contract) and the "
            "functional form of rolling_sum / mean_grp over the property's own scope (all series over {nodata,-2,0,1,3} up to "
            "length 6/8, all windows, all labelings with <=3 groups); the same scope is executed on the compiled kernels for "
            "every dtype and every recorded call (kernel, accessor numpy/dask, sentinel pairs, random longer series) is decided "
            "by TLC against the contract sets of allowed results. Exhaustive in the small scope, sampled beyond it."
        ),
        note="Trusted: TLC, the JSON trace writer, BigRat override (rational mean comparison only). Values kept small enough that float32 sums are exact.",
        design="7/C17",
    ),
}

NOT_YET = "check not built yet in this round (see DESIGN.md section 11 for the build order)"


def build():
    checks = []
    for pid in ALL:
        c = CHECKS.get(pid)
        if not c:
            continue
        checks.append(
            {
                "property_id": pid,
                "quick_cmd": f"./check {pid} --tier quick",
                "thorough_cmd": f"./check {pid} --tier thorough",
                "evidence_file": f"/verif/evidence/{pid}.json",
                "replay_cmd_template": f"./check {pid} --replay {{path}}",
                "engine": c["engine"],
                "level_claimed": {"category": c.get("level", MC), "text": c["text"], "design_ref": c["design"]},
                "level_note": c["note"],
                "technique": c["technique"],
            }
        )
    engines = {}
    for pid, c in CHECKS.items():
        engines.setdefault(c["engine"], []).append(pid)
    man = {
        "version": 1,
        "setup_cmd": "./setup.sh",
        "hooks": {
            "guard": "HDC_ALGO_VERIF",
            "enable": "no in-repo hooks are needed: every observation point is reachable from outside (public kernels, .py_func/.__wrapped__ sources, accessors); the guard is reserved and exported by ./check",
            "baseline_off_cmd": "cd /repo && /venv/bin/python -m pytest -ra -q -p no:cacheprovider --timeout=900 --continue-on-collection-errors",
            "source_commits": [],
            "add_only": True,
        },
        "engines": [
            {"name": n, "path": "/verif/spec + /verif/harness", "serves_properties": sorted(p), "kind_free_text": "TLA+ specification checked with TLC (exhaustive small scope) + TLC trace validation of recorded executions of the real code"}
            for n, p in sorted(engines.items())
        ],
        "checks": checks,
        "not_applicable": [{"property_id": p, "reason": NA.get(p, NOT_YET)} for p in ALL if p not in CHECKS],
        "notes": "exit 0 held / 1 VIOLATION / 2 machinery failure. Genuine defects repaired by fix: commits are listed in known_findings.json ('fixed').",
    }
    (VERIF / "MANIFEST.json").write_text(json.dumps(man, indent=1) + "\n")
    return man


NA: dict = {}

if __name__ == "__main__":
    m = build()
    try:
        import jsonschema

        jsonschema.validate(m, json.load(open("/root/.vp/MANIFEST.schema.json")))
        print("MANIFEST.json valid;", len(m["checks"]), "checks")
    except ImportError:
        print("written (jsonschema not available)")
