"""C03 - fixed-lambda smoothers return the rounded PLS / expectile curve.

(A) the curves are Ws2dFn!Solve, model-checked against the normal equations in C01's
    MCWs2d runs; here MCSmooth checks the expectile iteration's fixed-point property on a
    small scope.
(B) compiled ws2dgu / ws2dpgu and hdc.whit.whits (s=, sg= incl. -inf, p=, any dim order):
    TLC solves exactly (per pass for the asymmetric kernel, driven by the envelope
    decisions logged from the kernel's Python source) and checks the rounding band.
"""
from __future__ import annotations

import json
import random

import numpy as np

from .. import core, interp

MODULE = "TraceSmooth"


def fl(x):
    return core.rat(float(x))


def hints_pgu(y, lam, nd, p):
    """envelope decisions per pass, from the Python source of ws2dpgu (ws2d recorded)"""
    from hdc.algo import ops

    fn, recs = interp.rebuild(ops.ws2dpgu, record=("ws2d",))
    out = np.zeros(len(y), dtype="float64")
    fn(np.asarray(y, dtype="float64"), float(lam), float(nd), float(p), out)
    calls = recs["ws2d"].calls if "ws2d" in recs else []
    if len(calls) < 2:
        return [], cast_out(out)
    pats = []
    prev = np.zeros(len(y))
    for (a, r) in calls[:-1]:  # the last call is the final solve with the last weights
        ww = a[2]
        if float(p) != 0.5:   # observed: which of the two weights each cell received
            pats.append([1 if (v != 0 and abs(v - float(p)) < abs(v - (1 - float(p)))) else 0 for v in ww])
        else:                 # p = 1-p: the weights do not reveal the decision (and it has no effect)
            pats.append([int(b) for b in (np.asarray(y, dtype="float64") > prev)])
        prev = r
    return pats, cast_out(out)


def cast_out(a):
    return [int(v) for v in interp.cast_store(a, "int16").tolist()]


def cube_cases(rng, ncubes):
    """multi-pixel cubes through whits(sg=DataArray): every pixel has its own sgrid value, the sgrid is a labelled
    DataArray whose dimension order may differ from the data's (alignment is by label), the grid is not square"""
    import xarray as xr

    out = []
    for _ in range(ncubes):
        ny, nx, n = 2, 3, rng.choice([6, 8, 10])
        hasp = rng.random() < 0.5
        p = rng.choice([0.1, 0.9]) if hasp else None
        raw = {(i, j): series(rng, n, "season") for i in range(ny) for j in range(nx)}
        # nodata is an argument of the smoothers (also the falsy 0); the cube's own attribute is a decoy
        nd = rng.choice([-3000, 0]) if all(v != 0 for s_ in raw.values() for v in s_) else -3000
        pix = {k: gaps(rng, v, nd, rng.choice([0.0, 0.2])) for k, v in raw.items()}
        sgv = {(i, j): rng.choice([-1.0, -0.5, 0.0, 0.5, 1.0, 1.5, 2.0, "-inf"]) for i in range(ny) for j in range(nx)}
        data = np.array([[pix[(i, j)] for j in range(nx)] for i in range(ny)], dtype="float64")       # (y, x, time)
        ddims = rng.choice([("y", "x", "time"), ("time", "y", "x"), ("x", "time", "y")])
        da = xr.DataArray(data, dims=("y", "x", "time"), coords={"y": [10.0, 20.0], "x": [1.0, 2.0, 3.0]}, attrs={"nodata": float(raw[(0, 0)][0])}).transpose(*ddims)
        sga = np.array([[(-np.inf if sgv[(i, j)] == "-inf" else sgv[(i, j)]) for j in range(nx)] for i in range(ny)])
        sg = xr.DataArray(sga, dims=("y", "x"), coords={"y": [10.0, 20.0], "x": [1.0, 2.0, 3.0]})
        sgorder = rng.choice([("y", "x"), ("x", "y")])
        sg = sg.transpose(*sgorder)
        if rng.random() < 0.3:
            da = da.chunk({"y": 1, "x": 1})
        try:
            kw = {"p": p} if hasp else {}
            r = da.hdc.whit.whits(nd, sg=sg, **kw)
            res = {(i, j): [int(v) for v in np.asarray(r.sel(y=[10.0, 20.0][i], x=[1.0, 2.0, 3.0][j])).tolist()] for i in range(ny) for j in range(nx)}
            exc = ""
        except Exception as ex:
            res, exc = {}, type(ex).__name__
        for (i, j), y in pix.items():
            s_ = sgv[(i, j)]
            with np.errstate(divide="ignore"):
                lam = 0.0 if s_ == "-inf" else float(10.0 ** float(s_))
            c = {"op": "fixed", "api": "whits_sg_cube", "_done": True, "y": [str(v) for v in y], "nd": str(nd), "lam": fl(lam), "hasp": hasp, "p": fl(p) if hasp else "0",
                 "sg": "-inf" if s_ == "-inf" else fl(s_), "dims": list(ddims), "sgdims": list(sgorder), "variant": "pgu" if hasp else "gu", "inmod": False,
                 "out": res.get((i, j), [0] * len(y)), "exc": exc, "hints": []}
            if hasp and lam != 0.0 and not exc:
                c["hints"], c["out_py"] = hints_pgu(np.array(y, dtype="float64"), lam, nd, p)
            out.append(c)
    return out


def execute(c):
    import xarray as xr
    from hdc.algo import ops

    if c.get("_done"):
        return c

    y = np.array([float("nan") if s == "nan" else float(core.unrat(s)) for s in c["y"]], dtype="float64")
    nd = float(core.unrat(c["nd"]))
    lam = float(core.unrat(c["lam"])) if c["lam"] != "-inf" else 0.0
    hasp = c["hasp"]
    p = float(core.unrat(c["p"])) if hasp else None
    api = c["api"]
    y_before = y.copy()
    c["variant"] = "pgu" if hasp else "gu"
    if api == "kernel":
        out = ops.ws2dpgu(y, lam, nd, p) if hasp else ops.ws2dgu(y, lam, nd)
    else:
        dims = c.get("dims", ["time", "y", "x"])
        shape = [1, 1, 1]
        shape[dims.index("time")] = len(y)
        decoy = next((float(t) for t in y.tolist() if np.isfinite(t) and t != nd), 12345.0)
        da = xr.DataArray(y.reshape(shape), dims=dims, attrs={"nodata": decoy})    # a conflicting attribute: the argument counts
        if c.get("dask"):
            da = da.chunk({d: 1 for d in dims if d != "time"})
        kw = {}
        if api == "whits_s":
            kw["s"] = lam
        else:
            sgv = float(core.unrat(c["sg"])) if c["sg"] != "-inf" else -np.inf
            kw["sg"] = xr.DataArray(np.array([[sgv]]), dims=[d for d in dims if d != "time"])
            with np.errstate(divide="ignore"):
                lam = float(10.0**sgv)
        if hasp:
            kw["p"] = p
        r = da.hdc.whit.whits(nd, **kw).transpose(..., "time")
        out = np.asarray(r).reshape(-1)
    c["out"] = [int(v) for v in np.asarray(out).tolist()]
    c["inmod"] = not np.array_equal(y, y_before, equal_nan=True)      # the caller's array must come back untouched
    c["lam"] = fl(lam)
    c["hints"] = []
    if hasp and lam != 0.0:
        pats, out_py = hints_pgu(y, lam, nd, p)
        c["hints"] = pats
        c["out_py"] = out_py
    return c


def series(rng, n, kind=None):
    kind = kind or rng.choice(["noise", "season", "lin", "const", "steps"])
    if kind == "noise":
        v = [rng.randint(-10000, 10000) for _ in range(n)]
    elif kind == "season":
        a, ph = rng.randint(100, 5000), rng.random() * 6
        v = [int(3000 + a * np.sin(ph + t * 0.4) + rng.gauss(0, a / 6)) for t in range(n)]
    elif kind == "lin":
        a, b = rng.randint(-5000, 5000), rng.randint(-30, 30)
        v = [a + b * t for t in range(n)]
    elif kind == "const":
        v = [rng.randint(-9000, 9000)] * n
    else:
        v = []
        lvl = rng.randint(-3000, 3000)
        for t in range(n):
            if rng.random() < 0.15:
                lvl = rng.randint(-3000, 3000)
            v.append(lvl)
    return [max(-10000, min(10000, x)) for x in v]


def gaps(rng, v, nd, pmiss=None):
    pmiss = rng.choice([0.0, 0.0, 0.1, 0.3, 0.6]) if pmiss is None else pmiss
    out = [nd if rng.random() < pmiss else (x if x != nd else x + 1) for x in v]
    return out


def gen_cases(tier, seed):
    rng = random.Random(seed * 48271 + 3)
    quick = tier == "quick"
    cases = []

    def add(c):
        c["tid"] = len(cases) + 1
        cases.append(c)

    sizes = [4, 5, 6, 8, 10, 12, 16, 20, 24, 32] if quick else [4, 5, 6, 8, 12, 16, 24, 32, 48, 64, 96, 128]
    for _ in range(160 if quick else 1500):
        n = rng.choice(sizes)
        hasp = rng.random() < 0.5
        if hasp and n > 64:
            n = 64
        nd = rng.choice([-3000, 0, 32767, -32768, 255])
        y = gaps(rng, series(rng, n), nd)
        if rng.random() < 0.15:          # float-valued observations (quarters), not only integers
            y = [v if v == nd else v + rng.choice([0.25, 0.5, -0.25]) for v in y]
        api = rng.choice(["kernel", "kernel", "whits_s", "whits_sg"])
        c = {"op": "fixed", "api": api, "y": [core.rat(x) for x in y], "nd": str(nd), "hasp": hasp, "p": fl(rng.choice([0.1, 0.5, 0.9, 0.95, round(rng.uniform(0.02, 0.98), 2), 0.001, 0.004, 0.995, 0.999])) if hasp else "0"}
        if api == "whits_sg":
            sg = rng.choice([-3.0, -1.0, 0.0, 0.5, 1.0, 2.0, 3.2, 5.0, round(rng.uniform(-3, 5), 1), "-inf"])
            c["sg"] = "-inf" if sg == "-inf" else fl(sg)
            c["lam"] = "0"
        else:
            lam = rng.choice([0.0, 1e-3, 0.01, 0.5, 1.0, 10.0, 100.0, 1e3, 1e5, 10 ** rng.uniform(-3, 5)])
            c["lam"] = fl(lam)
        if api != "kernel":
            c["dims"] = rng.choice([["time", "y", "x"], ["y", "x", "time"], ["y", "time", "x"]])
            c["dask"] = rng.random() < 0.15
        add(c)
    for _ in range(2 if quick else 10):      # p = 1/2 through the accessor
        y = gaps(rng, series(rng, 10, "season"), -3000, 0.1)
        add({"op": "fixed", "api": "whits_s", "y": [str(x) for x in y], "nd": "-3000", "lam": fl(10.0), "hasp": True, "p": fl(0.5), "dims": ["time", "y", "x"]})
    for c in cube_cases(rng, 3 if quick else 25):
        add(c)
    # boundary numbers of valid cells: 0, 1 -> pass-through; 2, 3, 4 -> the curve (a line through two points)
    for nv in (0, 1, 2, 2, 3, 4):
        for hasp in (False, True):
            for api in ("kernel", "whits_sg"):
                n = rng.choice([4, 5, 8, 12])
                y = [-3000] * n
                for j in rng.sample(range(n), nv):
                    y[j] = rng.randint(-300, 300)
                c = {"op": "fixed", "api": api, "y": [str(x) for x in y], "nd": "-3000", "lam": fl(rng.choice([0.1, 10.0])), "hasp": hasp, "p": fl(0.9) if hasp else "0"}
                if api == "whits_sg":
                    c["sg"] = fl(rng.choice([0.0, 1.0]))
                    c["dims"] = ["y", "x", "time"]
                add(c)
    # iterations that have NOT settled after ten passes (skewed data, p next to 1): the result is the tenth pass, no more
    # (a float sketch of the iteration only selects the inputs; the verdict is TLC's exact ten-pass iteration)
    want, tries = (3 if quick else 12), 0
    while want and tries < 400:
        tries += 1
        rs_ = np.random.RandomState(rng.randrange(10**6))
        n = rng.choice([40, 60])
        yv = np.minimum(np.round(rs_.exponential(1500, n)), 10000)
        lam_, p_ = rng.choice([1.0, 10.0]), 0.9999
        z_ = np.zeros(n)
        npass = 0
        for npass in range(1, 16):
            ww_ = np.where(yv > z_, p_, 1 - p_)
            a_ = np.diag(ww_) + lam_ * (lambda d_: d_.T @ d_)(np.diff(np.eye(n), 2, axis=0))
            zn_ = np.linalg.solve(a_, ww_ * yv)
            if np.array_equal(np.where(yv > zn_, 1, 0), np.where(yv > z_, 1, 0)) and npass > 1:
                break
            z_ = zn_
        if npass >= 13:
            want -= 1
            add({"op": "fixed", "api": rng.choice(["kernel", "whits_s"]), "y": [str(int(v)) for v in yv], "nd": "-3000", "lam": fl(lam_), "hasp": True, "p": fl(p_), "dims": ["time", "y", "x"], "family": "unsettled"})
    if not quick:
        for n in (200, 400):
            y = gaps(rng, series(rng, n, "season"), -3000, 0.2)
            add({"op": "fixed", "api": "kernel", "y": [str(x) for x in y], "nd": "-3000", "lam": fl(100.0), "hasp": False, "p": "0"})
    return cases


def describe(c):
    d = {k: c[k] for k in ("op", "api", "nd", "lam", "hasp", "p", "sg", "dims") if k in c}
    d["n"] = len(c["y"])
    d["y_head"] = c["y"][:8]
    d["out_head"] = c.get("out", [])[:8]
    d["passes"] = len(c.get("hints", []))
    return d


def run(tier, seed):
    rep = core.Report("C03", tier, seed)
    cases = [execute(c) for c in gen_cases(tier, seed)]
    # hints are "available" when the source's solver calls could be observed at all in this run
    hinted = any(c["hints"] for c in cases)
    for c in cases:
        c["hinted"] = bool(hinted and c["hasp"])
    # compiled and interpreted source must agree on the stored band (ties aside) - reported, decided by TLC below
    verdicts, st = core.validate_batch(MODULE, cases, per_jvm=60, timeout=6000, heap="4g")
    rep.add_stats("TraceSmooth fixed", st, len(cases))
    rep.extra.update(
        distinct_nontrivial=len({json.dumps([c["y"], c["lam"], c["p"], c["hasp"]]) for c in cases if c["lam"] != "0"}),
        exhaustive=False,
        rule="random series (noise/seasonal/linear/constant/steps, gaps 0..60%) n 4..32 (quick) / ..128 (thorough, asymmetric ..64), lambda in 10^[-3,5] or 0, "
        "p in (0,1), kernel and whits(s=/sg= incl. -inf, dims in 3 orders, numpy/dask); non-trivial = lambda != 0",
        asymmetric=sum(1 for c in cases if c["hasp"]),
        passes_hist={str(k): sum(1 for c in cases if len(c.get("hints", [])) == k) for k in range(0, 11)},
    )
    for c in cases[:3] + cases[-2:]:
        rep.sample(describe(c))
    rep.settle(cases, verdicts)
    rep.assumptions += ["envelope decisions per pass are logged from the kernel's Python source (interp.rebuild) and validated by TLC against the exact curve; they only resolve ties", "C01's float64 accuracy bound (1e-6 relative) is granted to the rounding band"]
    return rep.finish()


def replay(path):
    v = json.loads(open(path).read())
    t = v["trace"]
    c = execute({k: t[k] for k in t if k not in ("out", "hints", "out_py", "tid")})
    c["tid"] = 1
    c["hinted"] = bool(t.get("hinted"))
    verdicts, _ = core.validate_batch(MODULE, [c], jobs=1)
    print("replayed", describe(c), "->", verdicts[1])
    if verdicts[1][0] == "REJECT":
        print(f"VIOLATION property=C03 replay={path}")
        return 1
    return 0
