------------------------------ MODULE SmallRat ------------------------------
(***************************************************************************)
(* Reference semantics of the rational operators in pure TLA+: normalised  *)
(* pairs <<num, den>>, den > 0, gcd = 1, on TLC's 32-bit integers.  Every  *)
(* product is guarded: an operation whose intermediate values would leave  *)
(* the safe range yields the marker Overflow (never a wrong number); the   *)
(* runner treats an Overflow reaching a verdict as machinery failure.      *)
(***************************************************************************)
EXTENDS Integers

SMAX == 2000000000
Overflow == <<0, 0>>
SAbsI(a) == IF a < 0 THEN -a ELSE a
RECURSIVE SGcd(_, _)
SGcd(a, b) == IF b = 0 THEN a ELSE SGcd(b, a % b)
SMulOK(a, b) == a = 0 \/ b = 0 \/ SAbsI(a) <= SMAX \div SAbsI(b)
SNorm(p, q) ==
    IF q = 0 THEN Overflow
    ELSE LET s == IF q < 0 THEN -1 ELSE 1
             g == SGcd(SAbsI(p), SAbsI(q))
         IN  <<(s * p) \div g, (s * q) \div g>>
SBad(a) == a[2] = 0

SInt(i) == <<i, 1>>
SZero == <<0, 1>>
SOne == <<1, 1>>
SAdd(a, b) ==      \* through the lcm of the denominators, to keep intermediates small
    IF SBad(a) \/ SBad(b) THEN Overflow
    ELSE LET g  == SGcd(a[2], b[2])
             fa == b[2] \div g
             fb == a[2] \div g
         IN  IF ~(SMulOK(a[1], fa) /\ SMulOK(b[1], fb) /\ SMulOK(a[2], fa)) THEN Overflow
             ELSE LET x == a[1] * fa  y == b[1] * fb IN
                  IF SAbsI(x) > SMAX - SAbsI(y) THEN Overflow ELSE SNorm(x + y, a[2] * fa)
SNeg(a) == IF SBad(a) THEN Overflow ELSE <<-a[1], a[2]>>
SSub(a, b) == SAdd(a, SNeg(b))
SMul(a, b) ==
    IF SBad(a) \/ SBad(b) THEN Overflow
    ELSE LET g1 == SGcd(SAbsI(a[1]), b[2])  g2 == SGcd(SAbsI(b[1]), a[2])
             n1 == a[1] \div (IF g1 = 0 THEN 1 ELSE g1)  d2 == b[2] \div (IF g1 = 0 THEN 1 ELSE g1)
             n2 == b[1] \div (IF g2 = 0 THEN 1 ELSE g2)  d1 == a[2] \div (IF g2 = 0 THEN 1 ELSE g2)
         IN  IF ~(SMulOK(n1, n2) /\ SMulOK(d1, d2)) THEN Overflow ELSE SNorm(n1 * n2, d1 * d2)
SDiv(a, b) == IF SBad(a) \/ SBad(b) \/ b[1] = 0 THEN Overflow
              ELSE SMul(a, IF b[1] < 0 THEN <<-b[2], -b[1]>> ELSE <<b[2], b[1]>>)
SCmp(a, b) ==   \* -1, 0, 1 (2 on overflow)
    IF SBad(a) \/ SBad(b) \/ ~(SMulOK(a[1], b[2]) /\ SMulOK(b[1], a[2])) THEN 2
    ELSE LET x == a[1] * b[2]  y == b[1] * a[2] IN IF x < y THEN -1 ELSE IF x > y THEN 1 ELSE 0
SLt(a, b) == SCmp(a, b) = -1
SLe(a, b) == SCmp(a, b) \in {-1, 0}
SEq(a, b) == SCmp(a, b) = 0
SAbs(a) == IF SBad(a) THEN Overflow ELSE <<SAbsI(a[1]), a[2]>>
SFloor(a) == a[1] \div a[2]          \* TLA+ \div floors
SRoundHE(a) ==
    LET fl == a[1] \div a[2]
        r2 == 2 * (a[1] - fl * a[2])
    IN  IF r2 < a[2] THEN fl ELSE IF r2 > a[2] THEN fl + 1 ELSE IF fl % 2 = 0 THEN fl ELSE fl + 1
=============================================================================
