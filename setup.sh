#!/bin/sh
# offline build of the framework: Java arithmetic override, parse every module,
# arithmetic self-check (SmallRat vs BigRat) when present
set -e
cd "$(dirname "$0")"
harness/build.sh
cd spec
for f in *.tla; do
  out=$(tla-sany "$f" 2>&1) || { echo "$out" | tail -20; echo "SANY failed on $f"; exit 1; }
done
cd ..
if [ -f harness/selfcheck.py ]; then
  PYTHONPATH=/verif:/repo /venv/bin/python -m harness.selfcheck
fi
echo setup ok
