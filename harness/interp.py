"""Run the Python source of a numba kernel in the interpreter (no repo hooks needed).

`.__wrapped__` (behind lazycompile) / `.py_func` (njit) keep the source reachable.  The
module globals are shimmed: numba type names -> numpy dtypes, optional recorders around
callee kernels (e.g. ws2d) so that the sequence of solver calls and their weights is
observable.  The original module is never modified: the function is re-created over a
copy of its globals.
"""
from __future__ import annotations

import types

import numpy as np

_NUMBA_TYPES = {"float64": np.float64, "float32": np.float32, "int16": np.int16, "int32": np.int32, "int64": np.int64, "uint8": np.uint8, "int8": np.int8, "boolean": np.bool_}


def source(wrapper):
    if hasattr(wrapper, "py_func"):
        return wrapper.py_func
    f = getattr(wrapper, "__wrapped__", None)
    if f is None:
        raise TypeError(f"no Python source reachable for {wrapper!r}")
    return f


class Recorder:
    """wraps a callee; logs positional args (arrays copied) and the result"""

    def __init__(self, fn):
        self.fn = fn
        self.calls = []

    def __call__(self, *a):
        r = self.fn(*a)
        self.calls.append(([np.array(x, copy=True) if isinstance(x, np.ndarray) else x for x in a], np.array(r, copy=True) if isinstance(r, np.ndarray) else r))
        return r


def rebuild(wrapper, record=(), extra=None):
    f = source(wrapper)
    g = dict(f.__globals__)
    for name, dt in _NUMBA_TYPES.items():
        if name in g and not isinstance(g[name], type):
            g[name] = dt
    recs = {}
    for name in record:
        if name in g:
            recs[name] = Recorder(g[name])
            g[name] = recs[name]
    if extra:
        g.update(extra)
    fn = types.FunctionType(f.__code__, g, f.__name__, f.__defaults__, f.__closure__)
    return fn, recs


def cast_store(a, dtype):
    """the unsafe store a compiled kernel performs into an integer output"""
    a = np.asarray(a, dtype="float64")
    with np.errstate(invalid="ignore"):
        return a.astype(dtype)
