----------------------------- MODULE TraceSmooth -----------------------------
(* recorded calls of the smoother kernels / accessors against spec/Smooth.tla *)
EXTENDS Smooth, Json, IOUtils

Cases == JsonDeserialize(IOEnv.TRACE_FILE)
VARIABLES k, v

Verdict(c) ==
    CASE c.op = "fixed" -> FixedVerdict(c.y, c.nd, c.lam, c.out, c.hasp, c.p, c.hints, c.hinted)
      [] OTHER -> <<"REJECT", "UnknownOp", c.op>>

Init == k \in 1..Len(Cases) /\ v = "todo"
Next == /\ v = "todo"
        /\ LET r == Verdict(Cases[k]) IN PrintT(<<"V", k, r[1], r[2], r[3]>>) /\ v' = r[1]
        /\ UNCHANGED k
TraceSpec == Init /\ [][Next]_<<k, v>>
=============================================================================
