----------------------------- MODULE MCSpiPixel -----------------------------
(* skeleton scope: counting / fit-sample loops = declarative definitions *)
EXTENDS SpiPixel
CONSTANT MaxLen
VARIABLES inp, ok
Alphabet == {"-9", "-1", "0", "1", "2", "5"}
Init == ok = "todo" /\ \E n \in 1..MaxLen : \E X \in [1..n -> Alphabet] : \E st \in 0..n : \E sp \in 0..n : inp = <<X, st, sp>>
Eval(i) ==
    LET X == i[1]  st == i[2]  sp == i[3]
        c == CountLoop(X, "-9", 1, 0, 0) IN
    /\ c = <<Cardinality(ZeroCells(X, "-9")), Cardinality(ValidCells(X, "-9"))>>
    /\ FitLoop(X, "-9", st + 1, sp, {}) = FitCells(X, "-9", st, sp)
    /\ \A j \in 1..Len(X) : (CellClass(X, "-9", j) = "index") = (j \in ValidCells(X, "-9"))
    \* a pixel with a valid cell has a well-defined zero share in [0, 1]
    /\ (c[2] > 0 => RLe("0", P0(X, "-9")) /\ RLe(P0(X, "-9"), "1"))
Next == ok = "todo" /\ ok' = (IF Eval(inp) THEN "yes" ELSE "no") /\ UNCHANGED inp
Spec == Init /\ [][Next]_<<inp, ok>>
Holds == ok # "no"
=============================================================================
