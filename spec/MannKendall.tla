---------------------------- MODULE MannKendall ----------------------------
(***************************************************************************)
(* mk_score, mk_variance_s, mk_z_score, mk_p_value, mk_sens_slope,         *)
(* mann_kendall_trend_1d and the gufunc wrappers (hdc/algo/ops/stats.py),  *)
(* PixelAlgorithms.mktrend (hdc/algo/accessors.py).                        *)
(* x: sequence of rationals (canonical strings).  Everything up to the     *)
(* normal distribution is exact: S and 18*Var(S) are integers, tau and     *)
(* Sen's slope rationals; Z enters only through Z^2 = 18(|S|-1)^2 / V18.   *)
(***************************************************************************)
EXTENDS BigRat, Integers, Sequences, FiniteSets, TLC

\* ---- CONTRACT (declarative)
Pairs(n) == {<<i, j>> \in (1..n) \X (1..n) : i < j}
SgnPair(x, i, j) == RCmp(x[j], x[i])                       \* sign(x_j - x_i)
RECURSIVE SumSet(_, _)
SumSet(F(_), S) == IF S = {} THEN 0 ELSE LET e == CHOOSE e \in S : TRUE IN F(e) + SumSet(F, S \ {e})
Score(x) == LET T(pr) == SgnPair(x, pr[1], pr[2]) IN SumSet(T, Pairs(Len(x)))
NPairs(n) == (n * (n - 1)) \div 2
TauA(x) == RDiv(RInt(Score(x)), RInt(NPairs(Len(x))))
\* tie groups: for each distinct value its multiplicity
Values(x) == {x[i] : i \in 1..Len(x)}
Mult(x, val) == Cardinality({i \in 1..Len(x) : x[i] = val})
TieTerm(t) == t * (t - 1) * (2 * t + 5)
V18(x) == LET n == Len(x)  T(val) == TieTerm(Mult(x, val)) IN TieTerm(n) - SumSet(T, Values(x))   \* 18 * Var(S)
\* continuity-corrected Z: sign and square
ZSign(x) == LET s == Score(x) IN IF s > 0 THEN 1 ELSE IF s < 0 THEN -1 ELSE 0
AbsI(a) == IF a < 0 THEN -a ELSE a
ZSq(x) == LET s == Score(x) IN IF s = 0 THEN "0" ELSE RDiv(RMul("18", RMul(RInt(AbsI(s) - 1), RInt(AbsI(s) - 1))), RInt(V18(x)))   \* rationals: 18(|S|-1)^2 leaves TLC's 32-bit integers for n > ~150
\* Sen's slope: median of all pairwise slopes
SlopeOf(x, pr) == RDiv(RSub(x[pr[2]], x[pr[1]]), RInt(pr[2] - pr[1]))
RankIn(S, e, Key(_)) ==    \* number of elements strictly smaller, and not larger
    <<Cardinality({o \in S : RLt(Key(o), Key(e))}), Cardinality({o \in S : RLe(Key(o), Key(e))})>>
Median(S, Key(_)) ==       \* median of the multiset {Key(e) : e \in S}, |S| >= 1
    LET m == Cardinality(S)
        At(r) == Key(CHOOSE e \in S : RankIn(S, e, Key)[1] < r /\ r <= RankIn(S, e, Key)[2])    \* r-th smallest, 1-based
    IN  IF m % 2 = 1 THEN At((m + 1) \div 2) ELSE RDiv(RAdd(At(m \div 2), At(m \div 2 + 1)), "2")
SenSlope(x) == LET K(pr) == SlopeOf(x, pr) IN Median(Pairs(Len(x)), K)

\* ---- ALGORITHM (the loops of the kernels)
RECURSIVE ScoreLoop(_, _, _, _, _)
ScoreLoop(x, kk, jj, s1, s2) ==       \* 0-based k, kk as in mk_score
    LET n == Len(x) IN
    IF kk >= n - 1 THEN s1 - s2
    ELSE IF jj >= n THEN ScoreLoop(x, kk + 1, kk + 2, s1, s2)
    ELSE ScoreLoop(x, kk, jj + 1, IF RLt(x[kk + 1], x[jj + 1]) THEN s1 + 1 ELSE s1, IF RLt(x[jj + 1], x[kk + 1]) THEN s2 + 1 ELSE s2)
ScoreAlgoLoop(x) == ScoreLoop(x, 0, 1, 0, 0)
\* the same double loop, one row (fixed k) at a time: s1 - s2 of row k is #{kk > k : x[kk] > x[k]} - #{kk > k : x[kk] < x[k]}
\* (checked equal to the cell-by-cell loop in MCMannKendall; used on long recorded series)
RECURSIVE ScoreRows(_, _)
ScoreRows(x, kk) ==
    IF kk >= Len(x) THEN 0
    ELSE Cardinality({jj \in (kk + 1)..Len(x) : RLt(x[kk], x[jj])}) - Cardinality({jj \in (kk + 1)..Len(x) : RLt(x[jj], x[kk])})
         + ScoreRows(x, kk + 1)
ScoreAlgo(x) == ScoreRows(x, 1)
V18Algo(x) ==   \* mk_variance_s: unique values, count each, or the no-ties shortcut
    LET n == Len(x)  xu == Values(x) IN
    IF Cardinality(xu) = n THEN TieTerm(n)
    ELSE LET T(val) == TieTerm(Mult(x, val)) IN TieTerm(n) - SumSet(T, xu)

\* linear-time forms used on long recorded series (checked equal in MCMannKendall)
\* all pairwise slopes, row by row (row i: pairs (i, i+1..n)); rows are concatenated, not appended cell by cell
SlopeRow(x, i) == [d \in 1..(Len(x) - i) |-> RDiv(RSub(x[i + d], x[i]), RInt(d))]
RECURSIVE SlopeRows(_, _)
SlopeRows(x, i) == IF i >= Len(x) THEN <<>> ELSE SlopeRow(x, i) \o SlopeRows(x, i + 1)
SenSlopeSorted(x) ==
    LET srt == RSort(SlopeRows(x, 1))
        m == Len(srt)
    IN  IF m % 2 = 1 THEN srt[(m + 1) \div 2] ELSE RDiv(RAdd(srt[m \div 2], srt[m \div 2 + 1]), "2")
TauFast(x) == RDiv(RInt(ScoreAlgo(x)), RInt(NPairs(Len(x))))
ZSqFast(x) == LET s == ScoreAlgo(x) IN IF s = 0 THEN "0" ELSE RDiv(RMul("18", RMul(RInt(AbsI(s) - 1), RInt(AbsI(s) - 1))), RInt(V18Algo(x)))
ZSignFast(x) == LET s == ScoreAlgo(x) IN IF s > 0 THEN 1 ELSE IF s < 0 THEN -1 ELSE 0

\* ---- normal distribution through a table: PT[k+1] = 2(1 - Phi(k/2000)), k = 0..KMAX
KMAX == 16000
RECURSIVE CellFix(_, _)
CellFix(z2, kk) ==     \* largest k with (k/2000)^2 <= z2
    IF kk > 0 /\ RLt(z2, RDiv(RInt(kk * kk), "4000000")) THEN CellFix(z2, kk - 1)
    ELSE IF RLe(RDiv(RInt((kk + 1) * (kk + 1)), "4000000"), z2) THEN CellFix(z2, kk + 1)
    ELSE kk
Cell(z2) == IF RLe("1600", z2) THEN 40 * 2000 ELSE CellFix(z2, RFloor(RMul("2000", RSqrt(z2))))
PBracket(PT, z2) ==    \* <<lo, hi>> with lo <= p <= hi
    LET kk == Cell(z2) IN
    IF kk >= KMAX THEN <<"0", PT[KMAX + 1]>> ELSE <<PT[kk + 2], PT[kk + 1]>>
\* significance at alpha = 0.05: |Z| > q, q = Phi^-1(0.975) = 1.95996398454005...
QLo2 == RSq("1959963984/1000000000")
QHi2 == RSq("1959963985/1000000000")
Significant(z2) == IF RLt(QHi2, z2) THEN "yes" ELSE IF RLt(z2, QLo2) THEN "no" ELSE "undecided"

\* ---- float32 outputs
Ulp32(v) == RMul(RAbs(v), "1/4194304")                 \* 4 ulp of single precision, relative
Near32(got, want) == RLe(RAbs(RSub(got, want)), RAdd(Ulp32(want), "1/100000000000000000000000000000000000000"))
=============================================================================
