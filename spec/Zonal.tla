-------------------------------- MODULE Zonal --------------------------------
(***************************************************************************)
(* hdc/algo/ops/zonal.py:do_mean and ZonalStatistics.mean.                 *)
(* A raster time step is given run-length encoded: a sequence of runs      *)
(* <<zone, value, count>> (value a rational or the marker nan; zone an     *)
(* integer).  Order of the runs = order of the pixels.                     *)
(***************************************************************************)
EXTENDS BigRat, Integers, Sequences, FiniteSets, TLC

IsValid(run, nd, znd) == run[2] # "nan" /\ run[2] # nd /\ run[1] # znd
RECURSIVE Acc(_, _, _, _, _, _)
Acc(runs, kk, nd, znd, j, sc) ==     \* <<sum, count>> of the valid pixels of zone kk
    IF j > Len(runs) THEN sc
    ELSE IF runs[j][1] = kk /\ IsValid(runs[j], nd, znd)
         THEN Acc(runs, kk, nd, znd, j + 1, <<RAdd(sc[1], RMul(runs[j][2], RInt(runs[j][3]))), sc[2] + runs[j][3]>>)
         ELSE Acc(runs, kk, nd, znd, j + 1, sc)
\* CONTRACT: exact sum and count of the valid pixels of zone kk
ZoneStat(runs, kk, nd, znd) == Acc(runs, kk, nd, znd, 1, <<"0", 0>>)

\* reported <<mean, count>> (rationals / nan) against the exact values; bits = 24 | 53
RelTol(bits) == IF bits = 24 THEN "1/4194304" ELSE "1/1125899906842624"     \* 4 units in the last place
CellOK(mean, cnt, st, bits) ==
    IF st[2] = 0 THEN mean = "nan" /\ cnt = "0"
    ELSE /\ mean \notin {"nan", "inf", "-inf"}
         /\ LET m == RDiv(st[1], RInt(st[2])) IN RLe(RAbs(RSub(mean, m)), RMul(RAbs(m), RelTol(bits)))
         /\ cnt = RRoundMant(RInt(st[2]), bits)          \* the count as exactly as the dtype can hold it

----------------------------------------------------------------------------
(* ALGORITHM: do_mean's accumulation pixel by pixel in a floating format    *)
(* with `bits` significant bits (0 = exact).  The pinned kernel accumulates  *)
(* sum and count in the OUTPUT dtype; the repaired one in float64.           *)
Fl(x, bits) == IF bits = 0 THEN x ELSE RRoundMant(x, bits)
RECURSIVE AddN(_, _, _, _)
AddN(acc, val, times, bits) == IF times = 0 THEN acc ELSE AddN(Fl(RAdd(acc, val), bits), val, times - 1, bits)
RECURSIVE AccFl(_, _, _, _, _, _, _)
AccFl(runs, kk, nd, znd, j, sc, bits) ==
    IF j > Len(runs) THEN sc
    ELSE IF runs[j][1] = kk /\ IsValid(runs[j], nd, znd)
         THEN AccFl(runs, kk, nd, znd, j + 1, <<AddN(sc[1], runs[j][2], runs[j][3], bits), AddN(sc[2], "1", runs[j][3], bits)>>, bits)
         ELSE AccFl(runs, kk, nd, znd, j + 1, sc, bits)
AlgoStat(runs, kk, nd, znd, accbits, outbits) ==     \* <<mean, count>> as stored
    LET sc == AccFl(runs, kk, nd, znd, 1, <<"0", "0">>, accbits) IN
    IF sc[2] = "0" THEN <<"nan", "0">> ELSE <<Fl(RDiv(sc[1], sc[2]), outbits), Fl(sc[2], outbits)>>
=============================================================================
