------------------------------ MODULE TraceSpi ------------------------------
(***************************************************************************)
(* One case = one pixel of a recorded SPI call (kernel gammastd_yxt /      *)
(* gammastd_grp-per-group, or the accessor).  Fields:                      *)
(*   x, nd, st, sp        the series, nodata, calibration index pair       *)
(*   outcome              "ok" or "raise:<Exception>" (the call as a whole)*)
(*   out                  reported cells (integers)                        *)
(*   fit                  1-based positions the ORACLE fitted (checked     *)
(*                        here against the contract's sample)              *)
(*   G, S                 per cell: SciPy gamma.cdf / gamma.sf at x[i]     *)
(*                        ("" where not applicable)                        *)
(*   dlt                  0 (int16 / float64 input) or the float32 widening*)
(***************************************************************************)
EXTENDS SpiPixel, Json, IOUtils
Batch == JsonDeserialize(IOEnv.TRACE_FILE)
Cases == Batch.cases
PT == Batch.common.ptable
VARIABLES k, v

NDInt(c) == c.ndi           \* nodata as the integer the output uses

\* C08 -- discrete rules
NodataRule(c) ==
    \A i \in 1..Len(c.x) : i \notin ValidCells(c.x, c.nd) => c.out[i] = NDInt(c)
UnfittableRule(c) == Unfittable(c.x, c.nd, c.st, c.sp) => \A i \in 1..Len(c.x) : c.out[i] = NDInt(c)
Monotone(c) ==
    LET V == ValidCells(c.x, c.nd) IN
    \A i, j \in V : /\ (RLe(c.x[i], c.x[j]) => c.out[i] <= c.out[j])
                    /\ (c.x[i] = c.x[j] => c.out[i] = c.out[j])
\* cells whose exact index lies beyond +-7000 must stay on their side, beyond every in-range index.
\* float32 inputs: the kernel's fit differs from the float64 oracle's by the share c.drel of the index
\* (single-precision logarithms), so the bound shrinks by that share; where the share is not quantifiable
\* ("big": near-constant calibration windows, shape ~1e5) only the side is demanded.
SatBound(c) == IF c.drel = "big" THEN 1
               ELSE IF c.drel = "0" THEN 6999 - c.dlt
               ELSE 6999 - c.dlt - RFloor(RMul(c.drel, "7000")) - 1
Saturates(c) ==
    \A i \in ValidCells(c.x, c.nd) :
        LET p0 == P0(c.x, c.nd)
            u == RAdd(p0, RMul(RSub("1", p0), c.G[i]))
            q == RMul(RSub("1", p0), c.S[i])
            b == Beyond(PT, u, q)
        IN  (b = 1 => c.out[i] >= SatBound(c)) /\ (b = -1 => c.out[i] <= -SatBound(c))

\* widening for float32 inputs: c.dlt units plus the share c.drel of the index (single-precision
\* logarithms in the sufficient statistic shift alpha, hence the index, proportionally)
Dlt(c, i) == IF c.drel = "0" THEN c.dlt ELSE c.dlt + RFloor(RMul(c.drel, RInt(IF c.out[i] < 0 THEN -c.out[i] ELSE c.out[i]))) + 1

\* C07 -- the value
ValueOK(c) ==
    \A i \in ValidCells(c.x, c.nd) :
        LET p0 == P0(c.x, c.nd)
            u == RAdd(p0, RMul(RSub("1", p0), c.G[i]))
            q == RMul(RSub("1", p0), c.S[i])
        IN  Beyond(PT, u, q) # 0 \/ QuantileOK(PT, c.out[i], Dlt(c, i), u, q)
FirstBadValue(c) == CHOOSE i \in ValidCells(c.x, c.nd) :
        LET p0 == P0(c.x, c.nd)
            u == RAdd(p0, RMul(RSub("1", p0), c.G[i]))
            q == RMul(RSub("1", p0), c.S[i])
        IN  ~(Beyond(PT, u, q) # 0 \/ QuantileOK(PT, c.out[i], Dlt(c, i), u, q))

Verdict(c) ==
    IF c.outcome # "ok" THEN <<"REJECT", "Total-NoException", c.outcome>>
    ELSE IF Len(c.out) # Len(c.x) THEN <<"REJECT", "Shape", "">>
    ELSE IF ~NodataRule(c) THEN <<"REJECT", "NodataRule", "">>
    ELSE IF ~UnfittableRule(c) THEN <<"REJECT", "UnfittablePixelIsNodata", "">>
    ELSE IF Unfittable(c.x, c.nd, c.st, c.sp) THEN <<"ACCEPT", "", "unfittable">>
    \* a single distinct positive value in the window: no MLE exists; only the discrete rules above apply
    ELSE IF ~InClaim(c.x, c.nd, c.st, c.sp) THEN <<"ACCEPT", "", "degenerate-window">>
    ELSE IF {c.fit[j] : j \in 1..Len(c.fit)} # FitCells(c.x, c.nd, c.st, c.sp) THEN <<"SKIP", "oracle-sample-differs-from-contract", "">>
    ELSE IF ~Monotone(c) THEN <<"REJECT", "Monotone", "">>
    ELSE IF ~Saturates(c) THEN <<"REJECT", "Saturates", "">>
    ELSE IF c.checkvalue /\ ~ValueOK(c) THEN <<"REJECT", "SpiValue", ToString(<<FirstBadValue(c), c.out[FirstBadValue(c)]>>)>>
    ELSE <<"ACCEPT", "", "">>

\* generic clauses of every recorded call: the caller's arrays come back untouched; an exception is an event
Guarded(c) == IF "inmod" \in DOMAIN c /\ c.inmod THEN <<"REJECT", "InputsUnmodified", "">>
              ELSE IF "exc" \in DOMAIN c /\ c.exc # "" THEN <<"REJECT", "NoException", c.exc>>
              ELSE Verdict(c)
Init == k \in 1..Len(Cases) /\ v = "todo"
Next == /\ v = "todo"
        /\ LET r == Guarded(Cases[k]) IN PrintT(<<"V", k, r[1], r[2], r[3]>>) /\ v' = r[1]
        /\ UNCHANGED k
TraceSpec == Init /\ [][Next]_<<k, v>>
=============================================================================
