----------------------------- MODULE BlockedApply -----------------------------
(***************************************************************************)
(* xarray.apply_ufunc(dask="parallelized") / dask.array.map_blocks as the   *)
(* accessors use them: the cube is split into blocks of pixels (the time    *)
(* axis whole), workers take pending blocks in any order, a block's result  *)
(* is computed pixel by pixel, the results are assembled.  C12: the         *)
(* assembled result does not depend on the partition, the order, the number *)
(* of workers; each pixel's result depends on that pixel only.              *)
(* Variant "scratch" models a kernel that keeps a scratch value across the  *)
(* pixels of one block (a hoisted buffer that is not reset): the negative   *)
(* control.                                                                 *)
(***************************************************************************)
EXTENDS Integers, Sequences, FiniteSets

CONSTANTS Pixels, Values, Workers, Variant
VARIABLES input, blocks, pending, running, done, out, scratch
vars == <<input, blocks, pending, running, done, out, scratch>>

F(val) == <<"F", val>>                     \* the per-pixel kernel, uninterpreted
Partitions == {Pt \in SUBSET (SUBSET Pixels \ {{}}) :
                  /\ UNION Pt = Pixels
                  /\ \A a, b \in Pt : a # b => a \cap b = {}}

Init == /\ input \in [Pixels -> Values]
        /\ blocks \in Partitions
        /\ pending = blocks /\ running = [w \in Workers |-> {}] /\ done = {}
        /\ out = [p \in Pixels |-> <<"unset">>]
        /\ scratch = [w \in Workers |-> <<"clean">>]

Start(w, b) == /\ b \in pending /\ running[w] = {}
               /\ running' = [running EXCEPT ![w] = b] /\ pending' = pending \ {b}
               /\ UNCHANGED <<input, blocks, done, out, scratch>>
\* a worker finishes its block: every pixel of the block from its own series
Finish(w) == /\ running[w] # {}
             /\ LET b == running[w]
                    first == CHOOSE p \in b : \A q \in b : p <= q
                IN  /\ out' = [p \in Pixels |->
                                IF p \notin b THEN out[p]
                                ELSE IF Variant = "scratch" /\ p # first THEN F(input[first])   \* stale scratch leaks
                                ELSE F(input[p])]
                    /\ done' = done \cup {b}
             /\ running' = [running EXCEPT ![w] = {}]
             /\ UNCHANGED <<input, blocks, pending, scratch>>
Next == \E w \in Workers : (\E b \in pending : Start(w, b)) \/ Finish(w)
Spec == Init /\ [][Next]_vars /\ \A w \in Workers : WF_vars(Finish(w)) /\ WF_vars(\E b \in pending : Start(w, b))

Assembled == done = blocks
PixelLocal == Assembled => \A p \in Pixels : out[p] = F(input[p])
NoEarlyWrite == \A p \in Pixels : out[p] # <<"unset">> => \E b \in done : p \in b
Completes == <>Assembled
=============================================================================
