--------------------------- MODULE MCReductionsFn ---------------------------
(***************************************************************************)
(* Functional form over the property's own exhaustive scope: every series  *)
(* over Alphabet up to MaxLen, every window, every labeling with groups    *)
(* 0..k-1.  One state per input; the evaluation happens in the Next step   *)
(* so that TLC's workers share it.                                         *)
(***************************************************************************)
EXTENDS Reductions, TLC
CONSTANTS MaxLen, Alphabet, ND, MaxGroups, Mode   \* Mode \in {"roll", "grp"}
VARIABLES inp, ok

Surj(g, k) == \A c \in 0..(k - 1) : \E j \in DOMAIN g : g[j] = c

Eval(i) ==
    IF Mode = "roll"
    THEN LET X == i[1]  W == i[2] IN
         IF W > Len(X) THEN TRUE
         ELSE /\ RollKernelOK(X, W, ND, RollAlgo("sumvalid", X, W, ND))
              \* the accessor's trimming keeps exactly the complete windows
              /\ RollAccessorOK(X, W, ND, SubSeq(RollAlgo("sumvalid", X, W, ND), W, Len(X)))
    ELSE \* every labeling of the series with exactly the groups 0..k-1 (evaluated here so that TLC's workers share it)
         \A g \in [1..Len(i[1]) -> 0..(i[2] - 1)] : Surj(g, i[2]) => MeanGrpAlgoOK(i[1], g, i[2], ND)

Init ==
    /\ ok = "todo"
    /\ IF Mode = "roll"
       THEN \E n \in 1..MaxLen : \E X \in [1..n -> Alphabet] : \E W \in 1..n : inp = <<X, W>>
       ELSE \E n \in 1..MaxLen : \E kk \in 1..MaxGroups : \E X \in [1..n -> Alphabet] : inp = <<X, kk>>
Next == ok = "todo" /\ ok' = (IF Eval(inp) THEN "yes" ELSE "no") /\ UNCHANGED inp
Spec == Init /\ [][Next]_<<inp, ok>>
Holds == ok # "no"
=============================================================================
