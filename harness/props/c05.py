"""C05 - GCV selection is optimal on the grid; robust mode never degenerates.

Non-robust: TLC computes the exact curve and the GCV score at every grid value and decides InGrid,
GcvMin (tie band 1e-6), BandIsFixed.  Robust: InGrid plus the checkable consequences the property
states -- linked clauses: constant / exactly linear / flat-with-spikes series are smoothed, not
zeroed (KeepsAffine, NotZeroed), and the result does not depend on the nodata placeholder.
"""
from __future__ import annotations

import random

from .. import core, smooth_common as sc
from . import c04
from .c03 import gaps, series


def gen_cases(tier, seed):
    rng = random.Random(seed * 75403 + 5)
    quick = tier == "quick"
    cases = []

    def add(c):
        c["tid"] = len(cases) + 1
        c.setdefault("op", "gcv")
        cases.append(c)

    def grid():
        ng = rng.randint(2, 8 if quick else 24) if rng.random() < 0.9 else rng.randint(2, 8 if quick else 40)
        start = rng.choice([-1.8, -2.0, 0.0, rng.uniform(-3, 1)])
        step = rng.choice([0.2, 0.5, 1.0, rng.uniform(0.05, 0.8)])
        if start + step * (ng - 1) > 5:
            step = (5 - start) / ng
        return [sc.fl(start + k * step) for k in range(ng)]

    sizes = [5, 6, 8, 10, 12, 16] if quick else [5, 6, 8, 12, 16, 24, 32, 48]
    for _ in range(60 if quick else 400):
        variant = rng.choice(["wcv", "wcvp"])
        n = rng.choice(sizes)
        nd = rng.choice([-3000, 0, 32767, 255, 16777217, -16777219])      # the last two: finite, exact in float64, not in float32
        y = gaps(rng, series(rng, n, rng.choice(["noise", "season", "steps"])), nd, rng.choice([0.0, 0.1, 0.3]))
        c = {"variant": variant, "y": [str(v) for v in y], "nd": str(nd), "grid": grid(), "robust": rng.random() < 0.35, "api": rng.choice(["kernel", "kernel", "accessor"])}
        if variant == "wcvp":
            c["p"] = sc.fl(rng.choice([0.1, 0.5, 0.9, round(rng.uniform(0.05, 0.95), 2)]))
        if c["api"] == "accessor":
            c["dims"] = rng.choice([["time", "y", "x"], ["y", "x", "time"], ["y", "time", "x"]])
            c["dask"] = rng.random() < 0.3
        add(c)
    # structured family: GCV curves with two competing minima and a hump between them (default grid)
    from .. import families
    dgrid = [-1.8 + 0.2 * k for k in range(30)]
    for _ in range(6 if quick else 60):
        ys = families.find(rng, "gcv2min", dgrid)
        if ys is None:
            continue
        variant = rng.choice(["wcv", "wcv", "wcvp"])
        c = {"variant": variant, "y": [str(v) for v in ys], "nd": "-3000", "grid": [sc.fl(g) for g in dgrid], "robust": False, "api": rng.choice(["kernel", "accessor"]), "family": "gcv2min"}
        if variant == "wcvp":
            c["p"] = sc.fl(0.9)
        add(c)
    for _ in range(2 if quick else 10):      # p = 1/2 through the accessor
        y = gaps(rng, series(rng, 10, "season"), -3000, 0.1)
        add({"variant": "wcvp", "y": [str(v) for v in y], "nd": "-3000", "grid": [sc.fl(-1.0 + 0.5 * k) for k in range(7)], "robust": False, "api": "accessor", "p": sc.fl(0.5), "dims": ["time", "y", "x"]})
    # grids made of very small lambdas only ("any start"): the score has a finite limit as lambda -> 0, the reported lambda is
    # still a grid entry and the band the fixed-lambda curve there
    for k in range(6 if quick else 24):
        variant = ["wcv", "wcvp"][k % 2]
        n = rng.choice([8, 10, 12])
        y = gaps(rng, series(rng, n, rng.choice(["noise", "season"])), -3000, [0.0, 0.2][(k // 2) % 2])
        g = [[-9.0, -8.0, -7.0], [-8.0, -7.5, -7.0, -6.5], [-9.0, -7.0, -5.0, -3.0, -1.0, 1.0]][k % 3]
        c = {"variant": variant, "y": [str(v) for v in y], "nd": "-3000", "grid": [sc.fl(v) for v in g], "robust": (k % 6) == 5, "api": ["kernel", "accessor"][(k // 3) % 2], "family": "lowgrid"}
        if variant == "wcvp":
            c["p"] = sc.fl(0.9)
        if c["api"] == "accessor":
            c["dims"] = ["time", "y", "x"]
        add(c)
    for nv in (0, 1, 4, 5):       # fewer than 5 valid cells: unchanged, lambda 0
        for variant in ("wcv", "wcvp"):
            y = [-3000] * 9
            for j in rng.sample(range(9), nv):
                y[j] = rng.randint(10, 90)
            c = {"variant": variant, "y": [str(v) for v in y], "nd": "-3000", "grid": [sc.fl(v) for v in (-1.0, 0.0, 1.0)], "robust": rng.random() < 0.5, "api": "kernel"}
            if variant == "wcvp":
                c["p"] = sc.fl(0.9)
            add(c)
    # robust: degenerate residual distributions (linked clauses; decided by TraceSmooth op "robustfam")
    for _ in range(30 if quick else 300):
        variant = rng.choice(["wcv", "wcvp"])
        n = rng.choice([8, 12, 20, 40] + ([] if quick else [100, 200]))
        fam = rng.choice(["const", "linear", "spikes", "const", "linear"])
        L = rng.randint(200, 5000)
        if fam == "const":
            y = [L] * n
            H = 0
        elif fam == "linear":
            b = rng.choice([-20, -3, 1, 7, 25])
            y = [L + b * (t - n // 2) for t in range(n)]
            H = 0
        else:
            H = rng.randint(5, max(6, L // 3))
            y = [L] * n
            for j in rng.sample(range(n), rng.randint(1, max(1, n // 2 - 1))):
                y[j] = L + rng.choice([-1, 1]) * rng.randint(1, H)
        nd1, nd2 = rng.choice([(-3000, 30000), (0, -1), (32767, -32768)])
        miss = [j for j in range(n) if rng.random() < rng.choice([0.0, 0.2, 0.4])]
        if n - len(miss) < 6:
            miss = miss[: max(0, n - 6)]
        for enc, nd in (("a", nd1), ("b", nd2)):
            yy = [nd if j in miss else v for j, v in enumerate(y)]
            c = {"op": "robustfam", "variant": variant, "y": [str(v) for v in yy], "nd": str(nd), "grid": [sc.fl(-1.8 + 0.2 * k) for k in range(30)], "robust": True, "api": "kernel",
                 "fam": fam, "level": L, "height": H, "line": [str(v) for v in y], "pair": len(cases) // 2 * 2, "enc": enc, "miss": miss}
            if variant == "wcvp":
                c["p"] = sc.fl(0.9)
            add(c)
    return cases


def m_majority_equal(trace, clause):
    """known finding C05-F1: robust mode, more than half of the valid cells equal, some other value present"""
    if clause != "NotZeroed" or not trace.get("robust"):
        return False
    vals = [v for v in trace["y"] if v != trace["nd"] and v not in ("nan", "inf", "-inf")]
    if not vals:
        return False
    top = max(vals.count(v) for v in set(vals))
    return top * 2 > len(vals) and len(set(vals)) > 1


def run(tier, seed):
    cases = gen_cases(tier, seed)
    rep = c04.run_smooth("C05", tier, seed, cases, matchers={"c05_robust_majority_equal": m_majority_equal}, rule=
                         "series n 5..16 (quick) / ..64 with gaps, sranges of 2..8 / ..40 entries, robust in {F,T}, p or none, kernels and whitswcv; pixels with 0,1,4,5 valid cells; "
                         "robust families: constant, exactly linear, flat with isolated spikes (n 8..40 / ..200), gaps 0..40%, each under two nodata placeholders")
    return rep.finish()


def replay(path):
    return c04.replay(path, "C05")
