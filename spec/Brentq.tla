------------------------------- MODULE Brentq -------------------------------
(***************************************************************************)
(* brentq (hdc/algo/ops/stats.py), the root finder behind the gamma MLE,   *)
(* transcribed branch by branch.  State = the code's locals at the top of  *)
(* a loop iteration.  The function whose root is sought is abstract here:  *)
(* Step takes the value fnew = f(xcur') as a parameter, so that one step   *)
(* of the real code can be validated from its logged state alone.          *)
(* All quantities are exact rationals (BigRat).                            *)
(***************************************************************************)
EXTENDS BigRat, Integers, Sequences, TLC

XTOL == "1/500000000000"                 \* 2e-12
RTOL == "1/1125899906842624"             \* 8.881784197001252e-16 = 2^-50
MAXITER == 100

\* st = [xpre, xcur, xblk, fpre, fcur, fblk, spre, scur]
\* the bookkeeping at the top of the loop body, before the convergence test
Rebracket(st) ==
    IF RLt(RMul(st.fpre, st.fcur), "0")
    THEN [st EXCEPT !.xblk = st.xpre, !.fblk = st.fpre, !.spre = RSub(st.xcur, st.xpre), !.scur = RSub(st.xcur, st.xpre)]
    ELSE st
Swap(st) ==
    IF RLt(RAbs(st.fblk), RAbs(st.fcur))
    THEN [st EXCEPT !.xpre = st.xcur, !.xcur = st.xblk, !.xblk = st.xcur,
                    !.fpre = st.fcur, !.fcur = st.fblk, !.fblk = st.fcur]
    ELSE st
Prep(st) == Swap(Rebracket(st))
Delta(st) == RDiv(RAdd(XTOL, RMul(RTOL, RAbs(st.xcur))), "2")
Sbis(st)  == RDiv(RSub(st.xblk, st.xcur), "2")
Converged(st) == st.fcur = "0" \/ RLt(RAbs(Sbis(st)), Delta(st))

\* which kind of step the code takes from a prepared state
Branch(p) ==
    LET dl == Delta(p) IN
    IF RLt(dl, RAbs(p.spre)) /\ RLt(RAbs(p.fcur), RAbs(p.fpre))
    THEN LET stry == IF p.xpre = p.xblk
                     THEN RDiv(RMul(RNeg(p.fcur), RSub(p.xcur, p.xpre)), RSub(p.fcur, p.fpre))          \* interpolate (secant)
                     ELSE LET dpre == RDiv(RSub(p.fpre, p.fcur), RSub(p.xpre, p.xcur))
                              dblk == RDiv(RSub(p.fblk, p.fcur), RSub(p.xblk, p.xcur))
                          IN  RDiv(RMul(RNeg(p.fcur), RSub(RMul(p.fblk, dblk), RMul(p.fpre, dpre))),
                                   RMul(RMul(dblk, dpre), RSub(p.fblk, p.fpre)))                         \* extrapolate (inverse quadratic)
             lim == RMin(RAbs(p.spre), RSub(RMul("3", RAbs(Sbis(p))), dl))
         IN  IF RLt(RMul("2", RAbs(stry)), lim)
             THEN <<IF p.xpre = p.xblk THEN "secant" ELSE "iqi", p.scur, stry>>        \* good short step: spre' = scur, scur' = stry
             ELSE <<"bisect", Sbis(p), Sbis(p)>>
    ELSE <<"bisect", Sbis(p), Sbis(p)>>

\* the new abscissa
NewX(p, scur2) ==
    LET dl == Delta(p) IN
    IF RLt(dl, RAbs(scur2)) THEN RAdd(p.xcur, scur2)
    ELSE IF RLt("0", Sbis(p)) THEN RAdd(p.xcur, dl) ELSE RSub(p.xcur, dl)

\* one full iteration: prepared state, branch, next state given fnew = f(new xcur)
Step(st, fnew) ==
    LET p == Prep(st)
        b == Branch(p)
    IN  [xpre |-> p.xcur, fpre |-> p.fcur, xblk |-> p.xblk, fblk |-> p.fblk,
         spre |-> b[2], scur |-> b[3], xcur |-> NewX(p, b[3]), fcur |-> fnew]

\* what the property needs from the solver: the root stays bracketed and the bracket does not grow
Bracketed(st) == RLe(RMul(st.fcur, st.fblk), "0") \/ RLe(RMul(st.fcur, st.fpre), "0")
Width(st) == RAbs(RSub(st.xblk, st.xcur))
=============================================================================
