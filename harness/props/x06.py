"""X06 (extra, not one of the listed properties) - accessor calls are history-free.

xarray builds `arr.hdc` (and its sub-accessors) once per array object and keeps it.  spec/AccessorSession.tla
models one array whose nodata attribute and time labels change in place between calls and states what each
call must use (Effective): a function of the array's state at the call and of the arguments.  TLC checks the
"live" variant (HistoryFree, ArgWins, NoSpuriousError) and finds the violation in the "memo" variant (an
accessor that freezes what it saw at first touch).  The harness runs sessions on real arrays, decodes from each
result WHICH nodata value / label order the call used (by comparison with fresh single-call references) and
TLC walks every session.
"""
from __future__ import annotations

import hashlib
import json
import random
import warnings

import numpy as np

from .. import core

MODULE = "TraceAccessorSession"
NDV = ["7", "-1"]
ND_OPS = ["rolling_sum", "mean_grp", "spi", "zonal_mean", "autocorr", "mktrend", "whits"]
HASARG = {"rolling_sum", "mean_grp", "spi", "whits"}
ARGONLY = {"whits"}
T = 10
# two ordinary pixels holding both candidate values, one pixel made of each candidate only (mktrend's nodata only matters there)
BASE = [[5, 7, 3, -1, 2, 7, 4, -1, 6, 9], [12, -1, 7, 30, 7, 2, -1, 8, 15, 4], [7] * 10, [-1] * 10]
BITS = [[1, 1, 0, 1, 0, 0, 1, 1, 1, 0], [0, 1, 1, 1, 0, 1, 0, 0, 1, 1]]


def times(order):
    import pandas as pd

    t = pd.date_range("2003-01-01", periods=T, freq="10D").values
    return t if order == "asc" else t[::-1].copy()


def make(kind, attr, order):
    import xarray as xr

    data = np.array(BASE if kind == "nd" else BITS, dtype="int16" if kind == "nd" else "uint8").reshape(1, -1, T)
    da = xr.DataArray(data.copy(), dims=("y", "x", "time"), coords={"time": times(order)})
    if attr != "none":
        da.attrs["nodata"] = int(attr)
    return da


def invoke(da, op, arg):
    import xarray as xr

    kw = {} if arg == "none" else {"nodata": int(arg)}
    with warnings.catch_warnings():
        warnings.simplefilter("ignore")
        if op == "rolling_sum":
            r = da.hdc.rolling.sum(3, **kw)
        elif op == "mean_grp":
            r = da.hdc.algo.mean_grp(np.array([i % 2 for i in range(T)], dtype="int16"), **kw)
        elif op == "spi":
            r = da.hdc.algo.spi(**kw)
        elif op == "zonal_mean":
            zones = xr.DataArray(np.array([[0, 1, 0, 1]], dtype="int32"), dims=("y", "x"), attrs={"nodata": 255})
            r = da.hdc.zonal.mean(zones, [0, 1])
        elif op == "autocorr":
            r = da.hdc.algo.autocorr()
        elif op == "mktrend":
            r = da.hdc.algo.mktrend()
        elif op == "whits":
            r = da.hdc.whit.whits(int(arg), s=1.0)
        elif op == "croo":
            r = da.hdc.algo.croo()
        else:
            raise KeyError(op)
    parts = [np.asarray(r[n]) for n in sorted(r.data_vars)] if isinstance(r, xr.Dataset) else [np.asarray(r)]
    h = hashlib.md5()
    for a in parts:
        h.update(str(a.shape).encode() + np.ascontiguousarray(a).astype("float64").tobytes())
    return h.hexdigest()[:16]


def outcome(fn):
    try:
        return fn()
    except ValueError:
        return "ValueError"
    except Exception as ex:  # anything else is an observation of its own
        return f"raise:{type(ex).__name__}"


REFS = {}


def references():
    """fresh single-call results: which digest each candidate produces (pairwise distinct, or the decoding is void)"""
    if REFS:
        return REFS
    for op in ND_OPS:
        tab = {}
        for cand in NDV + ["none"]:
            if op in HASARG:
                if cand == "none":
                    continue
                res = outcome(lambda: invoke(make("nd", "none", "asc"), op, cand))
            else:
                res = outcome(lambda: invoke(make("nd", cand, "asc"), op, "none"))
            tab[res] = "ValueError" if res == "ValueError" else cand
        if op in HASARG and op not in ARGONLY:
            tab["ValueError"] = "ValueError"
        want = len(NDV) + (0 if op in ARGONLY else 1)
        if len(tab) != want:
            raise core.Machinery(f"references of {op} are not pairwise distinct: {tab}")
        REFS[op] = tab
    tab = {outcome(lambda: invoke(make("bin", "none", o), "croo", "none")): o for o in ("asc", "desc")}
    if len(tab) != 2:
        raise core.Machinery(f"croo references coincide: {tab}")
    REFS["croo"] = tab
    return REFS


def execute(c):
    refs = references()
    da = make(c["kind"], c["attr0"], c["order0"])
    order = c["order0"]
    for e in c["events"]:
        if e["ev"] == "set":
            if e["v"] == "none":
                da.attrs.pop("nodata", None)
            else:
                da.attrs["nodata"] = int(e["v"])
        elif e["ev"] == "relabel":
            order = "desc" if order == "asc" else "asc"
            da["time"] = times(order)              # in place, on the same object
            e["order"] = order
        else:
            got = outcome(lambda: invoke(da, e["op"], e["arg"]))
            e["obs"] = refs[e["op"]].get(got, "unrecognised:" + str(got))
    return c


def gen_cases(tier, seed):
    rng = random.Random(seed * 6151 + 6)
    cases = []

    def add(kind, attr0, order0, events):
        cases.append({"tid": len(cases) + 1, "kind": kind, "attr0": attr0, "order0": order0, "events": events})

    call = lambda op, arg="none": {"ev": "call", "op": op, "arg": arg}  # noqa: E731
    sets = lambda v: {"ev": "set", "v": v}  # noqa: E731
    rel = {"ev": "relabel"}
    for op in ND_OPS:
        a0 = "7" if op in ARGONLY else "none"
        arg0 = "-1" if op in ARGONLY else "none"
        for a, b in (("7", "-1"), ("-1", "7")):
            # attribute a, call; replace by b in place, call; delete, call; set a again, call
            add("nd", a, "asc", [call(op, arg0), sets(b), call(op, arg0), sets("none"), call(op, arg0), sets(a), call(op, arg0)])
            # first touch without an attribute (an error for most), then the attribute appears
            add("nd", "none", "asc", [call(op, arg0), sets(a), call(op, arg0), dict(rel), call(op, arg0)])
            if op in HASARG:
                add("nd", a, "desc", [call(op, b), call(op, arg0 if op not in ARGONLY else a), sets(b), call(op, a), call(op, arg0 if op not in ARGONLY else b)])
        # another operation touched the accessor first
        other = rng.choice([o for o in ND_OPS if o != op and o not in ARGONLY])
        add("nd", a0 if a0 != "none" else "7", "asc", [call(other), sets("-1"), call(op, arg0)])
    for o0 in ("asc", "desc"):
        add("bin", "none", o0, [call("croo"), dict(rel), call("croo"), dict(rel), call("croo")])
        add("bin", "none", o0, [dict(rel), call("croo"), call("croo"), dict(rel), dict(rel), call("croo")])
    for _ in range(60 if tier == "quick" else 600):
        if rng.random() < 0.2:
            ev = [rng.choice([dict(rel), call("croo")]) for _ in range(rng.randint(3, 7))] + [call("croo")]
            add("bin", "none", rng.choice(["asc", "desc"]), [dict(e) for e in ev])
            continue
        ev = []
        for _ in range(rng.randint(3, 8)):
            r = rng.random()
            if r < 0.35:
                ev.append(sets(rng.choice(NDV + ["none"])))
            elif r < 0.45:
                ev.append(dict(rel))
            else:
                op = rng.choice(ND_OPS)
                arg = rng.choice(NDV) if op in ARGONLY else (rng.choice(NDV + ["none", "none"]) if op in HASARG else "none")
                ev.append(call(op, arg))
        ev.append(call(rng.choice([o for o in ND_OPS if o not in ARGONLY])))
        add("nd", rng.choice(NDV + ["none"]), rng.choice(["asc", "desc"]), ev)
    return cases


def run(tier, seed):
    rep = core.Report("X06", tier, seed)
    cfg = 'SPECIFICATION Spec\nCHECK_DEADLOCK FALSE\nCONSTANTS\n NDVals = {"7", "-1"}\n MaxCalls = %d\n Variant = "%s"\nINVARIANT HistoryFree\nINVARIANT ArgWins\nINVARIANT NoSpuriousError\n'
    r = core.must_pass(core.tlc("MCAccessorSession", cfg % (3 if tier == "quick" else 4, "live"), workers=8, timeout=900), "accessor sessions, live variant")
    rep.add_mc("MCAccessorSession live (HistoryFree, ArgWins, NoSpuriousError over all sessions with up to 3/4 calls)", r)
    r = core.tlc("MCAccessorSession", cfg % (3, "memo"), workers=4, timeout=900)
    if r.violated_name() != "HistoryFree":
        raise core.Machinery(f"negative control failed: an accessor that freezes its first view must violate HistoryFree\n{r.tail(20)}")
    rep.add_mc("MCAccessorSession memo (negative control: HistoryFree violated as expected)", r)
    # unbounded sessions: HistoryFree /\ ArgWins /\ NoSpuriousError is an inductive invariant (Apalache, symbolic)
    ok0, tail0, w0 = core.apalache("AccessorSession", "IndInv", length=0, extra=["--cinit=ConstInit"])
    ok1, tail1, w1 = core.apalache("AccessorSession", "IndInv", length=1, extra=["--cinit=ConstInit", "--init=IndInit"])
    okm, tailm, wm = core.apalache("AccessorSession", "IndInv", length=1, extra=["--cinit=ConstInitMemo", "--init=IndInit"])
    if not (ok0 and ok1):
        raise core.Machinery(f"Apalache did not establish the inductive invariant of AccessorSession:\n{tail0}\n{tail1}")
    if okm or "Checker has found an error" not in tailm:
        raise core.Machinery(f"negative control failed: the memo variant must break the inductive step\n{tailm}")
    rep.runs.append({"run": "Apalache AccessorSession: Init => IndInv; IndInv /\\ Next => IndInv' (sessions of any length); memo variant refuted", "wall_s": round(w0 + w1 + wm, 1)})
    cases = [execute(c) for c in gen_cases(tier, seed)]
    verdicts, st = core.validate_batch(MODULE, cases, per_jvm=2000, timeout=900)
    rep.add_stats("TraceAccessorSession", st, len(cases))
    rep.extra.update(distinct_nontrivial=len({json.dumps(c["events"]) for c in cases}), calls=sum(1 for c in cases for e in c["events"] if e["ev"] == "call"),
                     rule="per operation: attribute replaced / deleted / re-set in place between calls, first touch without attribute, explicit argument against the attribute, another "
                     "operation touching the accessor first; croo under in-place relabelling; random sessions of 4..9 events")
    for c in cases[:2] + cases[-2:]:
        rep.sample(c)
    rep.settle(cases, verdicts)
    return rep.finish()


def replay(path):
    v = json.loads(open(path).read())
    c = v["trace"]
    for e in c["events"]:
        e.pop("obs", None)
    c = execute(c)
    c["tid"] = 1
    verdicts, _ = core.validate_batch(MODULE, [c], jobs=1)
    print("replayed", json.dumps(c)[:1500], "->", verdicts[1])
    if verdicts[1][0] == "REJECT":
        print(f"VIOLATION property=X06 replay={path}")
        return 1
    return 0
