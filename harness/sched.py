"""Deterministic thread scheduling of the lazycompile wrapper (no repo hook).

sys.monitoring (CPython 3.12) delivers INSTRUCTION and CALL events for the wrapper's code
object in the executing thread; the callbacks block on a condition variable until the
scheduler grants that thread its next step.  Yield points are derived from the bytecode:
every LOAD_DEREF / STORE_DEREF of a closure cell the wrapper writes, and every CALL made
by the wrapper.  One logged event per yield point, with the cell's content after the step.
"""
from __future__ import annotations

import dis
import sys
import threading

MON = sys.monitoring
TOOL = MON.DEBUGGER_ID


class Kernel:
    """what the (harness-supplied) internal decorator returns: a finished kernel"""

    def __init__(self, f, num):
        self.f, self.num = f, num

    def __call__(self, *a, **k):
        return self.f(*a, **k)


class Explorer:
    def __init__(self, lazycompile, nthreads, calls):
        self.lazycompile = lazycompile
        self.nthreads = nthreads
        self.calls = calls  # list: calls per thread

    # ---- one execution under a given schedule prefix; returns (trace, choices_log)
    def run_once(self, prefix, chooser):
        kernels = []
        lock = threading.Condition()
        state = {"waiting": {}, "granted": None, "done": set(), "events": [], "pending": {}}
        decorator_calls = [0]

        def internal_decorator(f):
            decorator_calls[0] += 1
            k = Kernel(f, len(kernels) + 1)
            kernels.append(k)
            return k

        def target(x):
            return 2 * x + 1

        wrapper = self.lazycompile(internal_decorator)(target)
        code = wrapper.__code__
        cellnames = set()
        for ins in dis.get_instructions(code):
            if ins.opname == "STORE_DEREF":
                cellnames.add(ins.argval)
        offsets = {}
        for ins in dis.get_instructions(code):
            if ins.opname in ("LOAD_DEREF", "STORE_DEREF") and ins.argval in cellnames:
                offsets[ins.offset] = ins.opname

        def cell_state():
            for name, c in zip(code.co_freevars, wrapper.__closure__ or ()):
                if name in cellnames:
                    try:
                        val = c.cell_contents
                    except ValueError:
                        return 0
                    if val is None:
                        return 0
                    if isinstance(val, Kernel):
                        return val.num
                    return -1
            return 0

        tids = {}

        def me():
            return tids.get(threading.get_ident())

        def yield_point(kind, info=None):
            """called by thread t when it is ABOUT to do `kind`; blocks until granted"""
            t = me()
            if t is None:
                return
            with lock:
                # the previous step of this thread has completed: log it
                prev = state["pending"].pop(t, None)
                if prev is not None:
                    self._log(state, t, prev, cell_state(), kernels)
                state["waiting"][t] = (kind, info)
                lock.notify_all()
                while state["granted"] != t:
                    lock.wait()
                state["granted"] = None
                del state["waiting"][t]
                state["pending"][t] = [kind, info, None]

        loads_seen = {}

        def on_instruction(code_, offset):
            if code_ is code and offset in offsets:
                t = me()
                if t is None:
                    return
                if offsets[offset] == "STORE_DEREF":
                    yield_point("publish")
                else:
                    n = loads_seen.get(t, 0)
                    loads_seen[t] = n + 1
                    yield_point("check" if n == 0 else "fetch")

        def on_call(code_, offset, callable_, arg0):
            if code_ is code:
                t = me()
                if t is None:
                    return
                if callable_ is internal_decorator:
                    yield_point("compile")
                else:
                    yield_point("invoke", callable_)

        MON.use_tool_id(TOOL, "verif-sched")
        MON.register_callback(TOOL, MON.events.INSTRUCTION, on_instruction)
        MON.register_callback(TOOL, MON.events.CALL, on_call)
        MON.set_local_events(TOOL, code, MON.events.INSTRUCTION | MON.events.CALL)

        results = {}

        def body(t):
            tids[threading.get_ident()] = t
            for ci in range(self.calls[t - 1]):
                loads_seen[t] = 0
                yield_point("enter")
                try:
                    r = wrapper(10 * t + ci)
                    outcome = "F" if r == 2 * (10 * t + ci) + 1 else f"wrong:{r!r}"
                except Exception as ex:  # the error path is an event too
                    outcome = f"exception:{type(ex).__name__}"
                with lock:
                    prev = state["pending"].pop(t, None)
                    if prev is not None:
                        prev[2] = outcome
                        self._log(state, t, prev, cell_state(), kernels)
                    if outcome.startswith("exception"):
                        state["events"].append({"t": t, "a": "exception", "cell": cell_state(), "val": outcome, "callee": 0})
                results.setdefault(t, []).append(outcome)
            with lock:
                state["done"].add(t)
                lock.notify_all()

        threads = [threading.Thread(target=body, args=(t,), daemon=True) for t in range(1, self.nthreads + 1)]
        for th in threads:
            th.start()
        choices = []
        try:
            step = 0
            while True:
                with lock:
                    # wait until every live thread is parked at a yield point
                    ok = lock.wait_for(lambda: state["granted"] is None and len(state["waiting"]) + len(state["done"]) == self.nthreads, timeout=20)
                    if not ok:
                        raise RuntimeError("scheduler stalled")
                    if len(state["done"]) == self.nthreads:
                        break
                    enabled = sorted(state["waiting"])
                    pick = prefix[step] if step < len(prefix) and prefix[step] in enabled else chooser(step, enabled)
                    choices.append((pick, tuple(enabled)))
                    state["granted"] = pick
                    lock.notify_all()
                step += 1
        finally:
            MON.set_local_events(TOOL, code, 0)
            MON.register_callback(TOOL, MON.events.INSTRUCTION, None)
            MON.register_callback(TOOL, MON.events.CALL, None)
            MON.free_tool_id(TOOL)
        for th in threads:
            th.join(timeout=5)
        return {"events": state["events"], "results": results, "compiles": decorator_calls[0]}, choices

    @staticmethod
    def _log(state, t, prev, cell, kernels):
        kind, info, outcome = prev
        ev = {"t": t, "a": kind, "cell": cell, "val": "", "callee": 0}
        if kind == "invoke":
            ev["callee"] = info.num if isinstance(info, Kernel) else 0
            ev["val"] = outcome if outcome is not None else "F"
            if isinstance(outcome, str) and outcome.startswith("exception"):
                ev["val"] = outcome
        state["events"].append(ev)

    # ---- stateless DFS over all schedules (or a seeded sample)
    def explore(self, limit=None, rng=None):
        traces = []
        if rng is None:
            stack = [[]]
            seen_prefixes = set()
            while stack:
                prefix = stack.pop()
                tr, choices = self.run_once(prefix, lambda step, en: en[0])
                traces.append(tr)
                # branch on every decision after the prefix where another thread was enabled
                for i in range(len(prefix), len(choices)):
                    pick, enabled = choices[i]
                    for alt in enabled:
                        if alt != pick:
                            newp = [c[0] for c in choices[:i]] + [alt]
                            key = tuple(newp)
                            if key not in seen_prefixes:
                                seen_prefixes.add(key)
                                stack.append(newp)
                if limit and len(traces) >= limit:
                    break
        else:
            for _ in range(limit or 100):
                tr, _c = self.run_once([], lambda step, en: rng.choice(en))
                traces.append(tr)
        return traces
