"""X01 (extra, not one of the listed properties) - the argument contract of the accessors.

spec/Accessors.tla is a decision table: operation x facts about object and arguments -> "ok" or
the documented exception class.  The harness builds calls for every combination of the facts
that matter to each operation, records the outcome, and TLC decides it.  Anomalies.ratio / diff
are checked cell by cell with exact rationals.
"""
from __future__ import annotations

import itertools
import json
import random
import warnings

import numpy as np

from .. import core

MODULE = "TraceAccessors"
ND = -3000
FACTS = ("hastime", "sg", "s", "lc", "p", "srange", "int16", "nodataarg", "nodataattr", "groups", "groupslen", "dataset", "zonesda", "zonesnodata", "dimexists", "nzero", "datetime")
RELEVANT = {
    "whits": ("hastime", "sg", "s", "p"), "whitsvc": ("hastime", "lc", "p", "srange"), "whitswcv": ("hastime", "p"), "whitint": ("hastime", "int16"),
    "spi": ("hastime", "nodataarg", "nodataattr", "groups", "groupslen"), "croo": ("hastime",), "lroo": ("hastime",), "autocorr": ("nodataattr",), "mktrend": ("nodataattr",),
    "mean_grp": ("hastime", "nodataarg", "nodataattr", "groupslen"), "rolling_sum": ("nodataarg", "nodataattr"),
    "zonal_mean": ("dataset", "nodataattr", "zonesda", "zonesnodata"), "iteragg": ("dimexists", "nzero"), "dekad": ("datetime",),
}
GOOD = dict(hastime=True, sg=True, s=False, lc=False, p=True, srange=True, int16=True, nodataarg=True, nodataattr=True, groups=False, groupslen=True, dataset=False, zonesda=True, zonesnodata=True, dimexists=True, nzero=False, datetime=True)


PVAL = [0.9]


def call(op, f):
    import pandas as pd
    import xarray as xr

    T = 8
    rs = np.random.RandomState(5)
    a = rs.gamma(2.0, 30, (T, 2, 2)).astype("int16" if f["int16"] else "float64")
    tname = "time" if f["hastime"] else "step"
    da = xr.DataArray(a, dims=(tname, "y", "x"), coords={tname: pd.date_range("2000-01-01", periods=T, freq="10D")})
    if f["nodataattr"]:
        da.attrs["nodata"] = ND
    yx = lambda v: xr.DataArray(np.full((2, 2), v), dims=("y", "x"))  # noqa: E731
    with warnings.catch_warnings():
        warnings.simplefilter("ignore")
        if op == "whits":
            kw = {}
            if f["sg"]:
                kw["sg"] = yx(1.0)
            if f["s"]:
                kw["s"] = 10.0
            if f["p"]:
                kw["p"] = PVAL[0]
            return da.hdc.whit.whits(ND, **kw)
        if op == "whitsvc":
            kw = {}
            if f["lc"]:
                kw["lc"] = yx(0.7)
            if f["p"]:
                kw["p"] = PVAL[0]
            if f["srange"]:
                kw["srange"] = np.arange(-1, 1.5, 0.5)
            return da.hdc.whit.whitsvc(ND, **kw)
        if op == "whitswcv":
            return da.hdc.whit.whitswcv(ND, p=PVAL[0] if f["p"] else None)
        if op == "whitint":
            tm = np.zeros((T - 1) * 5 + 1)
            tm[::5] = 1
            return da.hdc.whit.whitint((np.arange(tm.size) // 10).astype("int32"), tm)
        if op == "spi":
            kw = {}
            if f["nodataarg"]:
                kw["nodata"] = ND
            if f["groups"]:
                kw["groups"] = [0, 1] * (T // 2) if f["groupslen"] else [0, 1, 0]
            return da.astype("int16").assign_attrs(da.attrs).hdc.algo.spi(**kw)
        if op in ("croo", "lroo"):
            b = (da > 40).astype("uint8")
            return getattr(b.hdc.algo, op)()
        if op == "autocorr":
            obj = da.astype("int16").assign_attrs(da.attrs).rename({tname: "time"})
            return (obj if f.get("timefirst") else obj.transpose("y", "x", "time")).hdc.algo.autocorr()
        if op == "mktrend":
            return da.astype("int16").assign_attrs(da.attrs).rename({tname: "time"}).hdc.algo.mktrend()
        if op == "mean_grp":
            g = np.array([0, 1] * (T // 2) if f["groupslen"] else [0, 1, 0], dtype="int16")
            return da.astype("int16").assign_attrs(da.attrs).hdc.algo.mean_grp(g, nodata=ND if f["nodataarg"] else None)
        if op == "rolling_sum":
            return da.astype("int16").assign_attrs(da.attrs).rename({tname: "time"}).hdc.rolling.sum(3, nodata=ND if f["nodataarg"] else None)
        if op == "zonal_mean":
            zones = xr.DataArray(np.array([[0, 1], [1, 0]]), dims=("y", "x"))
            if f["zonesnodata"]:
                zones.attrs["nodata"] = 255
            obj = da.rename({tname: "time"})
            obj = obj.to_dataset(name="band") if f["dataset"] else obj
            if f["dataset"] and f["nodataattr"]:
                obj.attrs["nodata"] = ND
            return obj.hdc.zonal.mean(zones if f["zonesda"] else zones.data, [0, 1])
        if op == "iteragg":
            return list(da.rename({tname: "time"}).hdc.iteragg.sum(0 if f["nzero"] else 2, dim="time" if f["dimexists"] else "nope"))
        if op == "dekad":
            obj = da.rename({tname: "time"})
            return (obj.time if f["datetime"] else obj).dekad.idx
    raise KeyError(op)


def gen_cases(tier, seed):
    rng = random.Random(seed + 101)
    cases = []
    for op, rel in RELEVANT.items():
        for vals in itertools.product([True, False], repeat=len(rel)):
            f = dict(GOOD)
            f.update(dict(zip(rel, vals)))
            if op == "whits" and not f["sg"] and not f["s"]:
                pass
            if op == "whits" and f["sg"] and f["s"]:
                f["s"] = False
            try:
                call(op, f)
                outcome = "ok"
            except Exception as ex:
                outcome = type(ex).__name__
            cases.append({"op": op, "facts": f, "outcome": outcome})
    import xarray as xr

    for _ in range(40 if tier == "quick" else 400):
        n = rng.randint(1, 12)
        x = [rng.randint(-500, 500) for _ in range(n)]
        ref = [rng.choice([0, rng.randint(-500, 500)]) for _ in range(n)]
        off = rng.choice([0, 1, 10, -3])
        dx, dr = xr.DataArray(np.array(x, dtype="float64")), xr.DataArray(np.array(ref, dtype="float64"))
        with np.errstate(all="ignore"):
            cases.append({"op": "anom_ratio", "x": [str(v) for v in x], "ref": [str(v) for v in ref], "off": str(off), "got": [core.rat(v) for v in np.asarray(dx.hdc.anom.ratio(dr, offset=off)).tolist()]})
            cases.append({"op": "anom_diff", "x": [str(v) for v in x], "ref": [str(v) for v in ref], "off": str(off), "got": [core.rat(v) for v in np.asarray(dx.hdc.anom.diff(dr, offset=off)).tolist()]})
    for i, c in enumerate(cases):
        c["tid"] = i + 1
    return cases


def run(tier, seed):
    rep = core.Report("X01", tier, seed)
    r = core.must_pass(core.tlc("MCAccessors", "SPECIFICATION Spec\nCHECK_DEADLOCK FALSE\nINVARIANT Holds\n", workers=core.NCPU, timeout=900), "accessor decision table")
    rep.add_mc("MCAccessors (decision table sanity over all fact vectors)", r)
    cases = gen_cases(tier, seed)
    verdicts, st = core.validate_batch(MODULE, cases, per_jvm=2000, timeout=900)
    rep.add_stats("TraceAccessors", st, len(cases))
    rep.extra.update(distinct_nontrivial=len({json.dumps(c, sort_keys=True) for c in cases}), exhaustive=True,
                     rule="every combination of the facts relevant to each of 14 accessor operations (time dimension, nodata attribute / argument, sg / s / lc / p / srange, dtype, Dataset, zones, dim, n = 0, datetime) + random anomaly ratio / diff cells",
                     outcomes={o: sum(1 for c in cases if c.get("outcome") == o) for o in sorted({c.get("outcome", "") for c in cases})})
    for c in cases[:2] + cases[-2:]:
        rep.sample(c)
    rep.settle(cases, verdicts)
    return rep.finish()


def replay(path):
    v = json.loads(open(path).read())
    print("recorded call:", v["trace"])
    print(f"VIOLATION property=X01 replay={path}")
    return 1
