"""C02 - missing observations carry zero weight in every smoother.
C06 (same machinery, see c06.py) - smoothers keep linear series, commute with offsets and reversal.

Linked executions of the same variant and parameters: the same series under different encodings
of its missing cells (nodata below / inside / above the data range; NaN, +inf, -inf for the fixed
and GCV variants).  TLC (TraceSmooth!Link) requires equal band and equal lambda; a difference is
granted only where BOTH executions, judged alone by the exact contract of their variant
(spec/Smooth.tla), are accepted and the bands differ by at most one unit (rounding / selection tie).
Pixels with fewer valid cells than the smoother needs: unchanged, lambda 0 (the variants' own
verdicts).  The gap-filled value at missing cells is part of each variant's band clause.
"""
from __future__ import annotations

import json
import random

import numpy as np

from .. import core, smooth_common as sc
from .c03 import series

MODULE = "TraceSmooth"
ALLV = ["gu", "pgu", "v", "vp", "vplc", "wcv", "wcvp"]
OP = {"gu": "fixed", "pgu": "fixed", "v": "vcurve", "vp": "vcurve", "vplc": "vcurve", "wcv": "gcv", "wcvp": "gcv"}


def params(rng, variant, n, quick):
    c = {"variant": variant, "op": OP[variant], "api": "kernel"}
    if variant in ("gu", "pgu"):
        c["lam"] = sc.fl(rng.choice([0.01, 0.5, 1.0, 10.0, 100.0, 1e3, 10 ** rng.uniform(-3, 5)]))
    if variant in ("v", "vp", "wcv", "wcvp"):
        ng = rng.randint(3, 6 if quick else 12)
        start = rng.choice([-2.0, -1.0, 0.0])
        step = rng.choice([0.5, 1.0, 0.4])
        c["grid"] = [sc.fl(start + k * step) for k in range(ng)]
    if variant == "vplc":
        c["lc"] = sc.fl(rng.choice([0.2, 0.7, -0.4, 0.51]))
    if variant in ("pgu", "vp", "vplc", "wcvp"):
        c["p"] = sc.fl(rng.choice([0.1, 0.9, 0.95, 0.7]))
    if variant in ("wcv", "wcvp"):
        c["robust"] = rng.random() < 0.5
    return c


def with_y(c, y, nd):
    d = dict(c)
    if d["variant"] not in ("gu", "pgu") and d.get("_acc"):
        d["api"] = "accessor"
    d.pop("_acc", None)
    d["y"] = [v if isinstance(v, str) else str(v) for v in y]
    d["nd"] = nd if isinstance(nd, str) else str(nd)
    return d


HUGE = int(1.7976931348623157e308)


def encode(vals, miss, placeholder):
    """vals: ints; miss: set of positions; placeholder: int or 'nan'/'inf'/'-inf' (nodata stays numeric then)"""
    return [placeholder if j in miss else v for j, v in enumerate(vals)]


def miss_pattern(rng, n, need):
    kind = rng.choice(["none", "isolated", "run", "lead", "trail", "allbut"])
    if kind == "none":
        m = set()
    elif kind == "isolated":
        m = {j for j in range(n) if rng.random() < 0.2}
    elif kind == "run":
        L = rng.randint(1, max(1, n // 2))
        a = rng.randint(0, n - L)
        m = set(range(a, a + L))
    elif kind == "lead":
        m = set(range(rng.randint(1, max(1, n // 3))))
    elif kind == "trail":
        m = set(range(n - rng.randint(1, max(1, n // 3)), n))
    else:
        keep = rng.randint(0, min(n, need + 2))
        m = set(range(n)) - set(rng.sample(range(n), keep))
    return m


def gen_links(tier, seed, rels):
    rng = random.Random(seed * 39916801 % (2**31) + len(rels))
    quick = tier == "quick"
    links = []
    sizes = [5, 6, 8, 10, 12, 16] if quick else [5, 6, 8, 12, 16, 24, 32, 48]
    per = (3 if quick else 25)
    for variant in ALLV:
        need = 5 if variant in ("wcv", "wcvp") else 2
        for rel in rels:
            if rel == "reverse" and variant in ("wcv", "wcvp"):
                continue
            for _ in range(per):
                n = rng.choice(sizes)
                c = params(rng, variant, n, quick)
                c["_acc"] = rng.random() < 0.25          # both executions of the pair through whitsvc / whitswcv
                vals = series(rng, n, rng.choice(["noise", "season", "steps", "season"]))
                vals = [max(-9000, min(9000, v)) for v in vals]
                miss = miss_pattern(rng, n, need)
                lo, hi = min(vals), max(vals)
                inside = next((v for v in range(lo + 1, hi) if v not in vals), lo - 1)
                ndA = rng.choice([lo - 1000, -32768 if variant != "vplc" else -30000, inside, hi + 1000])
                base = with_y(c, encode(vals, miss, ndA), ndA)
                if rel == "placeholder":
                    encs = [lo - 7, inside, hi + 11, 0 if 0 not in vals else hi + 3]
                    others = [with_y(c, encode(vals, miss, e), e) for e in rng.sample(encs, 2) if e != ndA]
                    if variant != "vplc" and miss:
                        # float cubes: the usual float nodata values (float64 / float32 maximum, 1e300) - their squares overflow
                        e = rng.choice([HUGE, -HUGE, int(1e300), -int(3.4028234663852886e38), 16777217, 2147483647, -16777219])   # the last three: finite but not exact in float32
                        others.append(with_y(c, encode(vals, miss, e), e))
                    if variant in ("gu", "pgu", "wcv", "wcvp") and miss:
                        for e in rng.sample(["nan", "inf", "-inf"], 2):
                            others.append(with_y(c, encode(vals, miss, e), ndA))   # nodata stays numeric; the cells are NaN / inf
                    for o in others:
                        links.append({"rel": rel, "base": base, "other": o})
                elif rel == "shift":
                    sh = rng.choice([-1000, -37, 1, 5, 250, 999])
                    if not -32768 <= ndA + sh <= 32767:       # the shifted placeholder must itself be an int16 value
                        sh = -sh
                    o = with_y(c, encode([v + sh for v in vals], miss, ndA + sh), ndA + sh)
                    links.append({"rel": rel, "shift": sh, "base": base, "other": o})
                elif rel == "reverse":
                    o = with_y(c, encode(vals, miss, ndA)[::-1], ndA)
                    links.append({"rel": rel, "base": base, "other": o})
                elif rel == "affine":
                    a, b = rng.randint(-4000, 4000), rng.choice([0, 0, -25, -3, 1, 2, 40])
                    line = [a + b * t for t in range(n)]
                    keep = [j for j in range(n) if j not in miss]
                    if len(keep) < need + 1:
                        miss = set(list(miss)[: max(0, n - need - 1)])
                    ndL = [min(line) - 500, max(line) + 500, max(line) + 1][len(links) % 3]      # the placeholder below OR above the data (in turn, not by chance)
                    o = with_y(c, encode(line, miss, ndL), ndL)
                    links.append({"rel": rel, "line": [str(v) for v in line], "base": o, "other": o})
    # boundary of the "too few valid cells" guard: 0 .. need+1 valid cells, every variant, every relation
    for variant in ALLV:
        need = 5 if variant in ("wcv", "wcvp") else 2
        for keep in range(0, need + 2):
            for rel in [r for r in rels if r in ("placeholder", "shift")]:
                n = rng.choice([6, 8, 12])
                c = params(rng, variant, n, quick)
                vals = [rng.randint(100, 900) for _ in range(n)]
                miss = set(range(n)) - set(rng.sample(range(n), keep))
                ndA = rng.choice([-3000, 5000, 50])
                vals = [v if v != ndA else v + 1 for v in vals]
                base = with_y(c, encode(vals, miss, ndA), ndA)
                if rel == "placeholder":
                    ndB = rng.choice([-1, 7000, 0])
                    links.append({"rel": rel, "base": base, "other": with_y(c, encode(vals, miss, ndB), ndB)})
                else:
                    sh = rng.choice([-37, 250])
                    links.append({"rel": rel, "shift": sh, "base": base, "other": with_y(c, encode([v + sh for v in vals], miss, ndA + sh), ndA + sh)})
    if "affine" in rels:
        # exactly two valid cells are a line: every non-GCV variant must return that line at every cell (gaps filled on it)
        for variant in [v for v in ALLV if v not in ("wcv", "wcvp")]:
            for _ in range(3 if quick else 12):
                n = rng.choice([5, 7, 9, 12])
                i, j = sorted(rng.sample(range(n), 2))
                a, b = rng.randint(-2000, 4000), rng.choice([-40, -3, 0, 2, 25])
                line = [a + b * t for t in range(n)]
                miss = set(range(n)) - {i, j}
                ndL = [min(line) - 500, max(line) + 500][len(links) % 2]
                c = params(rng, variant, n, quick)
                o = with_y(c, encode(line, miss, ndL), ndL)
                links.append({"rel": "affine", "line": [str(v) for v in line], "base": o, "other": o})
    if "shift" in rels:
        # envelope-sensitive inputs for the asymmetric fixed-lambda smoother: short noisy series around zero (the iteration
        # starts from the zero curve, so the sign of the data decides the first envelope), small lambda, p near 0 / 1, and
        # offsets that carry the series across zero. Equal outputs are accepted without any exact solve: these are cheap.
        for i in range(250 if quick else 2500):
            n = rng.choice([5, 6, 6, 7, 8, 10])
            vals = [rng.randint(0, 200) for _ in range(n)]
            miss = {j for j in range(n) if rng.random() < 0.1} if i % 3 == 0 else set()
            if n - len(miss) < 3:
                miss = set()
            c = {"variant": "pgu", "op": OP["pgu"], "api": "kernel", "lam": sc.fl(rng.choice([0.01, 0.1, 0.1, 1.0, 10.0])), "p": sc.fl(rng.choice([0.05, 0.9, 0.95, 0.95, 0.1]))}
            sh = rng.choice([-60, -100, -150, -30, 75])
            ndA = -3000
            links.append({"rel": "shift", "shift": sh, "base": with_y(c, encode(vals, miss, ndA), ndA), "other": with_y(c, encode([v + sh for v in vals], miss, ndA + sh), ndA + sh)})
    if "shift" in rels:
        # level-sensitive inputs for the GCV variants (robust weights on and off): seasonal series with gaps, shifted by
        # thousands so that the whole series changes sign (|values| + |c| <= 10000); zero-weight cells must not start to
        # matter when the level of the data moves relative to the blanked value 0
        for i in range(40 if quick else 400):
            variant = "wcvp" if i % 2 else "wcv"
            n = rng.choice([24, 36, 48, 71])
            a_, ph = rng.randint(300, 900), rng.random() * 6
            lvl = rng.choice([3000, 2500, -2500, 1500])
            vals = [int(lvl + a_ * np.sin(ph + t * 0.4) + rng.gauss(0, a_ / 5)) for t in range(n)]
            miss = {j for j in range(n) if rng.random() < 0.3}
            c = params(rng, variant, n, quick)
            c["robust"] = i % 4 != 3
            room = 10000 - max(abs(v) for v in vals)
            sh = -rng.choice([lvl * 2, lvl, lvl + 1500]) if abs(lvl) * 2 <= room else -lvl
            sh = max(-room, min(room, sh))
            ndA = -9999 if min(vals) + min(sh, 0) > -9000 else 32000
            links.append({"rel": "shift", "shift": sh, "base": with_y(c, encode(vals, miss, ndA), ndA), "other": with_y(c, encode([v + sh for v in vals], miss, ndA + sh if abs(ndA + sh) < 32700 else ndA), ndA + sh if abs(ndA + sh) < 32700 else ndA)})
    if "reverse" in rels:
        # selection-sensitive inputs: fine grid, short series, near-tie V-curves; equal outputs are accepted
        # without any exact solve, so many of these are cheap
        from .. import families
        fgrid = [-2.0 + 0.2 * k for k in range(31)]
        for i in range(120 if quick else 1200):
            variant = "v" if i % 4 else rng.choice(["vp", "vplc"])
            n = rng.choice([4, 5, 6, 8, 10])
            ys = families.find(rng, "vnear", fgrid, n_choices=(5, 6, 8), tries=60) if i % 3 == 0 else None
            if ys is None:
                ys = [rng.randint(0, 200) if rng.random() > 0.15 else -3000 for _ in range(n)]
                if sum(v != -3000 for v in ys) < 2:
                    continue
            c = {"variant": variant, "op": OP[variant], "api": "kernel", "grid": [sc.fl(g) for g in fgrid]}
            if variant != "v":
                c["p"] = sc.fl(0.9)
            if variant == "vplc":
                c["lc"] = sc.fl(rng.choice([0.2, 0.8]))
            base = with_y(c, ys, -3000)
            rel = rng.choice(["reverse", "reverse", "shift"])
            if rel == "reverse":
                links.append({"rel": "reverse", "base": base, "other": with_y(c, ys[::-1], -3000)})
            else:
                sh = rng.choice([-50, 7, 300])
                links.append({"rel": "shift", "shift": sh, "base": base, "other": with_y(c, [v + sh for v in ys], -3000 + sh)})
    return links


def run_links(prop, tier, seed, rels, rule):
    rep = core.Report(prop, tier, seed)
    links = gen_links(tier, seed, rels)
    cache = {}

    def ex(c):
        key = json.dumps(c, sort_keys=True)
        if key not in cache:
            cache[key] = sc.execute(dict(c))
        return cache[key]

    cases = []
    for i, L in enumerate(links):
        b, o = ex(L["base"]), ex(L["other"])
        cases.append({"tid": i + 1, "op": "link", "rel": L["rel"], "shift": L.get("shift", 0), "line": L.get("line", []), "_b": b, "_o": o})
    hinted = any(c["_b"].get("hinted_run") or c["_o"].get("hinted_run") for c in cases)
    payload = []
    for c in cases:
        for side in ("_b", "_o"):
            c[side]["hinted"] = bool(hinted and c[side].get("hasp") and c[side].get("hinted_run"))
            c[side]["tid"] = 0
        payload.append({"tid": c["tid"], "op": "link", "rel": c["rel"], "shift": c["shift"], "line": c["line"], "base": sc.tla_case(c["_b"]), "other": sc.tla_case(c["_o"])})
    verdicts, st = core.validate_batch(MODULE, payload, per_jvm=10, timeout=7000, heap="4g")
    rep.add_stats("TraceSmooth!Link", st, len(payload))
    rep.extra.update(
        distinct_nontrivial=len({json.dumps([c["rel"], c["_b"]["variant"], c["_b"]["y"], c["_o"]["y"]]) for c in cases}),
        by_relation={r: sum(1 for c in cases if c["rel"] == r) for r in rels},
        by_variant={v: sum(1 for c in cases if c["_b"]["variant"] == v) for v in ALLV},
        exhaustive=False,
        rule=rule,
    )
    for c in cases[:2] + cases[-2:]:
        rep.sample({"rel": c["rel"], "variant": c["_b"]["variant"], "base_y": c["_b"]["y"][:10], "other_y": c["_o"]["y"][:10], "base_out": c["_b"]["out"][:10], "other_out": c["_o"]["out"][:10], "lopt": [c["_b"]["lopt"][:24], c["_o"]["lopt"][:24]]})
    flat = [{"tid": c["tid"], "rel": c["rel"], "variant": c["_b"]["variant"], "base": {k: c["_b"].get(k) for k in ("y", "nd", "lam", "grid", "p", "lc", "robust", "out", "lopt")}, "other": {k: c["_o"].get(k) for k in ("y", "nd", "out", "lopt")}, "shift": c["shift"]} for c in cases]
    rep.settle(flat, verdicts)
    return rep


def run(tier, seed):
    rep = run_links("C02", tier, seed, ["placeholder"],
                    "per variant (7 kernels, GCV with and without robust weights): series n 5..16 (quick) / ..48 with missing-cell patterns (none, isolated, runs, leading, trailing, all-but-k), "
                    "placeholder encodings below / inside / above the data range and 0; NaN, +inf, -inf for the fixed and GCV variants")
    return rep.finish()


def replay(path, prop="C02"):
    v = json.loads(open(path).read())
    print("recorded link:", json.dumps(v["trace"])[:1500])
    print(f"VIOLATION property={prop} replay={path}")
    return 1
