------------------------------- MODULE Pipeline -------------------------------
(***************************************************************************)
(* One accessor call from end to end, composed from the tables that were   *)
(* written (and bound to the code) separately:                             *)
(*   Accessors!Expected          accepted, or the documented exception     *)
(*   HdcAlgo!KernelsOf           the lazily compiled kernels it dispatches *)
(*   AccessorSession!Source      where its nodata value comes from         *)
(*   AccessorOutputs!Expected    the variables / dims / dtype it returns   *)
(* The composition is where the tables must agree with each other; the     *)
(* laws below are checked by TLC over every operation and fact vector.     *)
(***************************************************************************)
EXTENDS Integers, Sequences, FiniteSets, TLC
H  == INSTANCE HdcAlgo WITH compiled <- {}
AO == INSTANCE AccessorOutputs
AS == INSTANCE AccessorSession WITH NDVals <- {}, MaxCalls <- 0, Variant <- "live", attr <- "none", order <- "asc",
                                   memo <- [set |-> FALSE, attr |-> "none", order |-> "asc"],
                                   last <- [op |-> "none", arg |-> "none", attr |-> "none", order |-> "asc", obs |-> "none"], ncalls <- 0

Ops == {"whits", "whitsvc", "whitswcv", "whitint", "spi", "croo", "lroo", "autocorr", "mktrend", "mean_grp", "rolling_sum", "zonal_mean"}

\* the name of the call in the output table (which spells out the variants)
Variant(op, f) ==
    CASE op = "whits"    -> IF f.s THEN "whits_s" ELSE IF f.p THEN "whits_sgp" ELSE "whits_sg"
      [] op = "whitsvc"  -> IF f.lc THEN "whitsvc_lc" ELSE IF f.p THEN "whitsvc_p" ELSE "whitsvc"
      [] op = "whitswcv" -> IF f.p THEN "whitswcv_p" ELSE "whitswcv"
      [] op = "spi"      -> IF f.groups THEN "spi_grp" ELSE "spi"
      [] OTHER           -> op

\* the input record of the output table for a (time, y, x) int16 cube under the given layout
In(dims, lazy) == [dims |-> dims, sizes |-> [i \in 1..3 |-> IF dims[i] = "time" THEN 8 ELSE IF dims[i] = "y" THEN 2 ELSE 3], dtype |-> "int16",
                   name |-> "v", attrs |-> {"nodata"}, nodata |-> "-3000", lazy |-> lazy, w |-> 3, nper |-> 4, nz |-> 2, dimname |-> "zones",
                   zname |-> "none", outdtype |-> "float32"]

\* one call: outcome, kernels filled on first use, variables returned
Call(op, f, dims, lazy) ==
    LET out == H!Expected(op, f) IN
    IF out # "ok" THEN [outcome |-> out, kernels |-> {}, vars |-> <<>>]
    ELSE [outcome |-> "ok", kernels |-> H!KernelsOf(op, f), vars |-> AO!Expected(Variant(op, f), In(dims, lazy))]

(* ---- laws across the tables -------------------------------------------------------------------------------- *)
\* every accepted call has a row in the output table, and only accepted calls return anything
OutputsDefined(op, f, dims, lazy) ==
    LET c == Call(op, f, dims, lazy) IN (c.outcome = "ok") <=> (c.vars # <<>>)
\* the nodata source of the session model and the error rules of the argument table tell the same story
NodataStory(op, f) ==
    LET src == AS!Source(op)
        g == [f EXCEPT !.hastime = TRUE, !.groupslen = TRUE, !.dataset = FALSE, !.sg = TRUE, !.s = FALSE, !.srange = TRUE, !.lc = FALSE, !.int16 = TRUE]
        none == [g EXCEPT !.nodataarg = FALSE, !.nodataattr = FALSE]
        attronly == [g EXCEPT !.nodataarg = FALSE, !.nodataattr = TRUE]
        argonly == [g EXCEPT !.nodataarg = TRUE, !.nodataattr = FALSE]
    IN CASE src = "arg-or-attr"   -> H!Expected(op, none) = "ValueError" /\ H!Expected(op, attronly) = "ok" /\ H!Expected(op, argonly) = "ok"
         [] src = "attr-required" -> H!Expected(op, none) = "ValueError" /\ H!Expected(op, attronly) = "ok" /\ H!Expected(op, argonly) = "ValueError"
         [] src = "attr-optional" -> H!Expected(op, none) = "ok" /\ H!Expected(op, attronly) = "ok"
         [] OTHER                 -> H!Expected(op, none) = "ok"         \* arg-only (a positional argument, no fact) / no nodata at all
\* operations that reduce the time axis return no time dimension and dispatch to a kernel that has no time output,
\* per-pixel series operations keep it as the LAST dimension (apply_ufunc's core dimension)
TimeAxis(op, f, dims, lazy) ==
    LET c == Call(op, f, dims, lazy) IN
    c.outcome = "ok" =>
       \A i \in 1..Len(c.vars) :
          LET d == c.vars[i].dims
              has == \E j \in 1..Len(d) : d[j] = "time" IN
          CASE op \in {"lroo", "croo", "autocorr", "mktrend"} -> ~has
            [] op = "whitint"                                 -> ~has /\ d[Len(d)] = "newtime"
            [] op = "zonal_mean"                              -> d[1] = "time"
            [] c.vars[i].var = "sgrid"                        -> ~has
            [] OTHER                                          -> has /\ d[Len(d)] = "time"
\* int16 in, int16 out for the smoothers / spi; float32 for the statistics; a rejected call compiles nothing
Dtypes(op, f, dims, lazy) ==
    LET c == Call(op, f, dims, lazy) IN
    c.outcome = "ok" =>
       \A i \in 1..Len(c.vars) :
          LET t == c.vars[i].dtype IN
          CASE op \in {"whits", "whitsvc", "whitswcv", "whitint", "spi"} -> t = (IF c.vars[i].var = "sgrid" THEN "float32" ELSE "int16")
            [] op \in {"autocorr", "mean_grp", "rolling_sum", "zonal_mean"} -> t = "float32"
            [] op = "mktrend" -> t = (IF c.vars[i].var = "trend" THEN "int8" ELSE "float32")
            [] op = "lroo"    -> t = "uint32"
            [] OTHER          -> TRUE
RejectedCompilesNothing(op, f, dims, lazy) == LET c == Call(op, f, dims, lazy) IN c.outcome # "ok" => c.kernels = {}
=============================================================================
