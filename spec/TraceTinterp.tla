---------------------------- MODULE TraceTinterp ----------------------------
(* recorded calls of ops.tinterpolate / hdc.whit.whitint against Tinterp *)
EXTENDS Tinterp, Json, IOUtils

Cases == JsonDeserialize(IOEnv.TRACE_FILE)
VARIABLES k, v

Unmodified(c) == c.tmpl_after = c.tmpl /\ c.labels_after = c.labels

General(c) ==
    LET z == Daily(c.x, c.tmpl)
        m == PeriodMeans(z, c.labels)
    IN  IF ~P!IsPLS(z, Scatter(c.x, c.tmpl), WeightsOf(c.tmpl), Lambda) THEN <<"REJECT", "SpecSolveNotPLS", "">>
        ELSE IF ~Unmodified(c) THEN <<"REJECT", "InputsModified", "">>
        ELSE IF Len(c.out) # Len(RunsList(c.labels)) THEN <<"REJECT", "OnePerLabelRun", "">>
        \* a period mean outside int16 has no int16 image: outside the claim
        ELSE IF \E r \in 1..Len(m) : ~RLt(RAbs(m[r]), "32767") THEN <<"SKIP", "period-mean-leaves-int16", "">>
        ELSE IF OutOK(c.out, m, MaxAbsRec(z, Len(z))) THEN <<"ACCEPT", "", "">>
        ELSE <<"REJECT", "RoundedPeriodMean", "">>

Linear(c) ==      \* data linear in the day number (constant: b = 0): certificate, no solve
    IF ~IsLinearInDay(c.x, c.tmpl, c.a, c.b) THEN <<"SKIP", "not-linear-in-day", "">>
    ELSE IF ~Unmodified(c) THEN <<"REJECT", "InputsModified", "">>
    ELSE LET m == LineMeans(c.a, c.b, c.labels)
             sc == RMax(RAbs(LineAt(c.a, c.b, 1)), RAbs(LineAt(c.a, c.b, Len(c.tmpl)))) IN
         IF Len(c.out) # Len(RunsList(c.labels)) THEN <<"REJECT", "OnePerLabelRun", "">>
         ELSE IF OutOK(c.out, m, sc) THEN <<"ACCEPT", "", "">>
         ELSE <<"REJECT", IF c.b = "0" THEN "ConstantKept" ELSE "LinearPeriodMean", "">>

Verdict(c) == CASE c.op = "general" -> General(c) [] c.op = "linear" -> Linear(c) [] OTHER -> <<"REJECT", "UnknownOp", c.op>>

\* generic clauses of every recorded call: the caller's arrays come back untouched; an exception is an event
Guarded(c) == IF "inmod" \in DOMAIN c /\ c.inmod THEN <<"REJECT", "InputsUnmodified", "">>
              ELSE IF "exc" \in DOMAIN c /\ c.exc # "" THEN <<"REJECT", "NoException", c.exc>>
              ELSE Verdict(c)
Init == k \in 1..Len(Cases) /\ v = "todo"
Next == /\ v = "todo"
        /\ LET r == Guarded(Cases[k]) IN PrintT(<<"V", k, r[1], r[2], r[3]>>) /\ v' = r[1]
        /\ UNCHANGED k
TraceSpec == Init /\ [][Next]_<<k, v>>
=============================================================================
