------------------------------ MODULE Penalty ------------------------------
(***************************************************************************)
(* The second-difference penalty and the normal equations of the           *)
(* Whittaker smoother, over an abstract field (instantiated with SmallRat  *)
(* or BigRat).  Sequences are 1-based.                                     *)
(*    minimise  sum w_i (y_i - z_i)^2 + lam * sum (z_i - 2 z_{i+1} + z_{i+2})^2 *)
(*    <=>  (W + lam D'D) z = W y                                           *)
(* D'D is derived here from the definition of D, not copied from the code. *)
(***************************************************************************)
EXTENDS Integers, Sequences
CONSTANTS Add(_, _), Sub(_, _), Mul(_, _), Div(_, _), FromInt(_)

Zero == FromInt(0)
\* row r of D (r in 1..n-2) has 1, -2, 1 in columns r, r+1, r+2
DEntry(r, j) == IF j = r THEN 1 ELSE IF j = r + 1 THEN -2 ELSE IF j = r + 2 THEN 1 ELSE 0
RECURSIVE ISum(_, _, _)
ISum(F(_), lo, hi) == IF lo > hi THEN 0 ELSE F(lo) + ISum(F, lo + 1, hi)
DtD(n, i, j) == LET T(r) == DEntry(r, i) * DEntry(r, j) IN ISum(T, 1, n - 2)     \* an integer

RECURSIVE FSum(_, _, _)
FSum(F(_), lo, hi) == IF lo > hi THEN Zero ELSE Add(F(lo), FSum(F, lo + 1, hi))
Lo(i) == IF i - 2 < 1 THEN 1 ELSE i - 2
Hi(n, i) == IF i + 2 > n THEN n ELSE i + 2

\* (W + lam D'D) z, row i (only the five-wide band can be non-zero)
NormalRow(z, w, lam, i) ==
    LET n == Len(z)
        T(j) == Mul(Add(IF i = j THEN w[i] ELSE Zero, Mul(lam, FromInt(DtD(n, i, j)))), z[j])
    IN  FSum(T, Lo(i), Hi(n, i))
IsPLS(z, y, w, lam) == \A i \in 1..Len(y) : NormalRow(z, w, lam, i) = Mul(w[i], y[i])

\* sum of squared second differences, weighted residual sum of squares
Sq(a) == Mul(a, a)
Roughness(z) == LET T(r) == Sq(Add(Sub(z[r], Mul(FromInt(2), z[r + 1])), z[r + 2])) IN FSum(T, 1, Len(z) - 2)
WRSS(y, z, w) == LET T(i) == Mul(w[i], Sq(Sub(y[i], z[i]))) IN FSum(T, 1, Len(y))

\* D'D annihilates affine sequences (so a line solves the normal equations for any w, lam)
IsAffine(z) == \A r \in 1..(Len(z) - 2) : Add(Sub(z[r], Mul(FromInt(2), z[r + 1])), z[r + 2]) = Zero
=============================================================================
