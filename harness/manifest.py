"""Generates /verif/MANIFEST.json from one table (run: /venv/bin/python -m harness.manifest)."""
import json
from pathlib import Path

VERIF = Path(__file__).resolve().parent.parent
ALL = [f"C{i:02d}" for i in range(1, 21)]

MC = "model_checking"

CHECKS = {
    "C17": dict(
        engine="tlc-reductions",
        technique="TLC exhaustive model check of spec/Reductions*.tla + TLC validation of recorded kernel/accessor calls (exhaustive bulk scope replayed on the compiled code)",
        text=(
            "TLC explores the rolling_sum loop machine (index safety, machine = function, function => contract) and the "
            "functional form of rolling_sum / mean_grp over the property's own scope (all series over {nodata,-2,0,1,3} up to "
            "length 6/8, all windows, all labelings with <=3 groups); the same scope is executed on the compiled kernels for "
            "every dtype and every recorded call (kernel, accessor numpy/dask, sentinel pairs, random longer series) is decided "
            "by TLC against the contract sets of allowed results. Exhaustive in the small scope, sampled beyond it."
        ),
        note="Trusted: TLC, the JSON trace writer, BigRat override (rational mean comparison only). Values kept small enough that float32 sums are exact.",
        design="7/C17",
    ),
}

def _c(engine, technique, text, note, design, level=MC):
    return dict(engine=engine, technique=technique, text=text, note=note, design=design, level=level)


CHECKS.update({
    "C01": _c("tlc-ws2d", "TLC exhaustive model check of the ws2d row machine (SmallRat/BigRat) + TLC trace validation of ws2d.py_func run on exact fractions and of the compiled float64 kernel",
        "TLC proves, for every input of the small scopes (n 4..5 over pure-TLA+ rationals, n up to 6/8 with the BigInteger override), that the row-by-row LDL' machine of ws2d factorises the normal matrix, stays in bounds and returns the solution of (W + lam D'D) z = W y, with D'D derived from the definition of D. The implementation is bound to it by two trace legs decided by TLC: the Python source of ws2d executed on exact fractions, stepped row by row against the machine (identical, no tolerance), and the compiled kernel on float64 against the exact solve within the property's 1e-6.",
        "Trusted: TLC, BigRat override (cross-checked against SmallRat in setup), CPython Fraction. Known finding C01-F1 (stiff extrapolation loses float64 accuracy) is reported, not raised.", "7/C01"),
    "C03": _c("tlc-smooth", "TLC trace validation against spec/Smooth.tla: exact PLS / expectile iterates (Ws2dFn!Solve over BigRat), per-pass envelope decisions logged from the kernel source and validated",
        "Every recorded call of ws2dgu / ws2dpgu / whits(s=, sg=, p=) is decided by TLC: the band must be the half-even rounding of the exact curve (tie band = C01's float accuracy); for the asymmetric kernel TLC re-runs the reweighting iteration exactly, pass by pass, checks every logged envelope weight against the exact previous iterate, the pass limit and the convergence rule. The solver used by the contract is itself model-checked against the normal equations (C01).",
        "Sampled inputs (not exhaustive); curves leaving int16 are SKIPped as out of claim; hints only resolve envelope ties.", "7/C03"),
    "C11": _c("tlc-dekad", "TLC exhaustive model check of spec/Dekad.tla over all 359,964 dekads + TLC validation of a day-by-day scan of the real class + TLC-generated operation sequences replayed on real objects",
        "The calendar is re-derived in TLA+ from the leap rule; TLC checks abutment, cover, month sums, inverse constructions and that every day of each dekad maps back (a partition of all 3,652,059 days) for every dekad. The real Dekad class is observed on every day of the tier's range (date and 23:59:59.999999), run-length encoded, and every run with all its public fields is decided by TLC; the .dekad accessor is compared element-wise; TLC-simulated behaviours of the operation machine (add/sub/diff/compare/hash/round-trips) are replayed on real objects step by step.",
        "quick scans one 400-year cycle plus both range ends, thorough every day; end_date of 9999-12-d3 is outside datetime and outside the claim.", "7/C11"),
    "C18": _c("tlc-runs", "TLC exhaustive model check of spec/Runs.tla (lroo loop, croo pipeline) + TLC validation of kernel/accessor calls (exhaustive bulk scope + long structured runs)",
        "TLC checks the lroo loop (with an output-width parameter) and the croo xarray pipeline against the declarative longest/current run for all binary series up to length 12/16 and all stored orders up to 5/6; the same series are executed on the compiled kernel (bulk), the accessors, runs up to 600 at every position, competing runs around 255..257 and random permutations, each call decided by TLC.",
        "Trusted: TLC, JSON trace writer. Input cubes are uint8 0/1.", "7/C18"),
    "C19": _c("tlc-iteragg", "TLC exhaustive model check of the generator machine (spec/IterAgg.tla) + step-by-step TLC trace validation of every next() of the real generator",
        "The generator (label lookup incl. get_indexer = -1, loop, break, yield) is a TLA+ state machine checked against the declarative window contract for every axis length up to 8/12, n, begin/end on and off the axis and lookup method. Real executions are logged as one event per next() (yield with attrs, stamp and values / end / raise) and TLC validates each trace step by step, values compared as exact rationals.",
        "Exhaustive to axis length 4 (quick) / 7 (thorough) on the real code, sampled to 12. nearest-ties are left nondeterministic.", "7/C19"),
    "C20": _c("tlc-tinterp", "TLC model check of the cursor loops (spec/Tinterp.tla) + TLC trace validation with exact daily Whittaker solve and period means",
        "TLC checks the kernel's scatter and run-length loops against their declarative definitions (cursors in bounds) on all templates/labelings of a small scope, and decides every recorded call of ops.tinterpolate / whitint: the daily curve is solved exactly (float 1e-5 lambda, weights on marks), verified against the normal equations, averaged per label run and compared with the rounded output; inputs unmodified; constant / linear-in-day data up to daily length 4000 by an affine certificate.",
        "Exact solves limited to daily length 100 (quick) / 400 (thorough); period means outside int16 are SKIPped.", "7/C20"),
})

CHECKS.update({
    "C10": _c("tlc-mannkendall", "TLC exhaustive model check of spec/MannKendall.tla over all rank patterns + TLC validation of kernel/wrapper/accessor results (exact S, Var(S), tau, Sen slope; p and flag through a normal table)",
        "TLC checks, for every rank pattern (one per weak order) of length 2..6/7, that the kernels' loops equal the declarative S, tie-corrected Var(S) and Sen median and that the stated symmetries hold (rank-only dependence, sign flips, slope scaling). The same patterns are executed on the compiled gufuncs (bulk) and random series up to n = 200 with linked monotone / negated / reversed copies on all entry points; TLC recomputes tau and the slope as exact rationals, brackets the p-value in one cell of a table of 2(1-Phi(k/2000)) located by comparing Z^2 exactly, and decides the trend flag through the bracketed 0.975 quantile.",
        "Phi is supplied as a table generated from erfc and cross-checked against two other implementations; p is checked to one grid cell (<= 4e-4 absolute).", "7/C10"),
    "C12": _c("tlc-concurrency", "TLC model check of the lazycompile wrapper (2-3 threads, invariants + liveness) and of a blocked-apply model; TLC trace validation of EVERY interleaving of two racing first calls of the real wrapper under a sys.monitoring scheduler; eager-vs-dask configuration matrix decided by TLC",
        "The wrapper's check-then-act race is a TLA+ machine with one action per critical point; TLC explores all interleavings for 2 and 3 threads (cell only ever holds a finished kernel, only kernels are called, every call returns F, termination under fairness). The real wrapper is driven through every interleaving of its bytecode-level critical points for two racing first calls (stateless DFS, deterministic scheduler built on sys.monitoring, no repo hook), a bounded DFS for 2+1 calls and a seeded sample for three threads; every execution is validated step by step by TLC. Real numba compiles are raced in fresh subprocesses. For 18 accessor operations the eager result is compared by TLC with dask runs over chunkings, schedulers, dimension orders, permuted pixels and a chunked time axis (refuse or equal); the prange kernel is run under every thread count.",
        "Only Python-level yield points are scheduled deterministically; numba's lock, dask's schedulers and the prange runtime are exercised, not enumerated. Layout runs cover time first / last / middle and x stored before y for every operation (zonal.mean included); a lazy result must compute to the dtype it announces (AnnouncedDtype).", "7/C12"),
    "C15": _c("tlc-autocorr", "TLC exhaustive model check of spec/Autocorr.tla (running-sum formula = mean-filled Pearson) + TLC validation of every API/encoding/layout result against the exact rational correlation",
        "TLC checks on all series of length 3..6/7 over {missing,0,1,2,5} that the kernels' running-sum formula equals the mean-filled Pearson correlation (squared value and sign, exactly), lies in [-1,1] and is invariant under positive affine maps; a negative control shows the pinned numerator violates it. Real results of autocorr_1d (int/nodata and float/NaN), autocorr, autocorr_tyx and the accessor (both layouts, numpy and dask) are decided by TLC against the exact rational C, VarX, VarY: r^2 VarX VarY = C^2 within 1e-5, sign, zero rule, range.",
        "float32 tolerance 1e-5 on r^2; the unrounded float64 helper autocorr_1d is allowed 1e-9 above 1.", "7/C15"),
    "C16": _c("tlc-zonal", "TLC model check of spec/Zonal.tla (exact accumulation = contract, accumulator-width experiment) + TLC validation of do_mean / zonal.mean on run-length encoded rasters up to 2.5e7 pixels per zone",
        "TLC checks that exact accumulation equals the declarative per-zone mean and count, that rearranging pixels changes nothing, and -- with a parametric floating format -- that accumulating in the output format breaks the contract while a wide accumulator with one final rounding meets it. Real calls of do_mean and hdc.zonal.mean (float32/float64, numpy/dask) are recorded with the raster as a run-length encoded pixel stream; TLC computes the exact sum and count per (time, zone) from the runs and requires the mean within 4 ulp of the output dtype and the count exactly as the dtype can hold it, NaN/0 for empty zones.",
        "Zones up to 1e6 pixels in quick, 2.5e7 in thorough; nodata values at the edges of each data type, cubes stored time first / last / middle, zone rasters in (y, x) and (x, y) order.", "7/C16"),
})

CHECKS.update({
    "C07": _c("tlc-spi", "TLC model check of the gammastd skeleton (spec/SpiPixel.tla) + TLC trace validation: exact p0 and fitted sample, mixture u = p0 + (1-p0) G with G from scipy.stats recorded in the trace, rounded normal quantile decided by an inversion-free bracket in a normal table",
        "TLC checks the counting loop, fit-sample selection and case split of gammastd against their declarative definitions on all small series/windows, and decides every recorded pixel of gammastd_yxt / gammastd_grp / hdc.algo.spi: it recomputes the zero share and WHICH cells are fitted exactly, verifies that SciPy's oracle fitted that same sample, forms the mixture with SciPy's CDF / survival values (the independent evaluation the property names) and requires the reported index s to satisfy Phi((2s-1)/2000) <= u <= Phi((2s+1)/2000) in the tail that carries the precision.",
        "The gamma MLE / CDF values are SciPy's (scipy.stats.gamma.fit/cdf/sf), not computed by TLC; float32 inputs are held to an interval widened by the worst-case effect of single-precision logarithms; |index| > 7000 is left to C08.", "7/C07"),
    "C08": _c("tlc-spi", "TLC trace validation of degenerate / extreme pixels against spec/SpiPixel.tla (Total, NodataRule, UnfittablePixelIsNodata, Monotone, Saturates)",
        "Cubes mixing an ordinary pixel with all-nodata, all-negative, all-zero, >90% zeros, constant, low-variance and outlier pixels are run through both kernels and the accessor; TLC decides per pixel: no exception for the whole call, nodata and negative cells yield nodata, an unfittable pixel is nodata everywhere, indices are non-decreasing in the observation (equal observations equal indices), and an observation whose exact index lies beyond +-7000 (from the oracle's tail probabilities) stays beyond 6999 on its side instead of wrapping or becoming 0.",
        "Same trusted base as C07; saturation is asserted relative to the oracle's tail probability, not to a particular clamp value.", "7/C08"),
    "C09": _c("tlc-spi-accessor", "TLC exhaustive model check of spec/SpiAccessor.tla (searchsorted = inclusive window, validity tests = MustRaise, scatter/gather = per-group decomposition) + TLC validation of get_calibration_indices / hdc.algo.spi calls",
        "TLC checks on every sorted axis up to 5/6 steps, every begin/end and every labeling with up to 3 groups that the binary-search index pair delimits exactly {t : begin <= t <= end}, that the code's validity tests coincide with the contract's invalid windows, and that the grouped driver equals the per-group ungrouped index with an uninterpreted per-series function. Real calls are decided by TLC: ValueError iff the window is invalid (per group), recorded attributes, ungrouped output equal to the kernel output for the contract's index pair (neighbouring pairs are recorded, TLC selects), grouped output equal cell by cell to ungrouped calls on each group's sub-cube, invariance under respelling the labels ('10' < '2' strings, letters, floats), single group = ungrouped.",
        "SPI values themselves are uninterpreted here (C07); each candidate window is evaluated twice (as given, and with the window's steps moved to the front) and the two must agree (FitSampleIsTheWindowsSteps).", "7/C09"),
})

CHECKS.update({
    "C02": _c("tlc-smooth", "TLC validation of linked executions (same series, different encodings of the missing cells) with TraceSmooth!Link; differences are granted only on ties established by the exact per-variant contracts of spec/Smooth.tla",
        "For each of the seven smoother kernels (GCV with and without robust weights) the same series is run under different placeholders for its missing cells -- nodata below, inside and above the data range, and NaN / +inf / -inf for the fixed and GCV variants -- and TLC requires the same band and the same lambda; a difference is granted only if both executions, judged alone by the exact contract of their variant (exact PLS / expectile curves, V-curve / GCV optimum within the tie band), are accepted and differ by at most one unit. Pixels with fewer valid cells than the smoother needs must come back unchanged with lambda 0; the value at missing cells is the fitted curve there (band clause of each variant).",
        "Sampled (not exhaustive) missing-cell patterns; robust GCV has no exact contract, so a one-cell +-1 difference there is SKIPped as undecidable.", "7/C02"),
    "C04": _c("tlc-smooth", "TLC trace validation against the V-curve contract of spec/Smooth.tla: exact curve at every grid value (PLS, or expectile fixed points certified from logged envelope patterns), V-curve ordinates, optimum within a 1e-6 tie band, band = fixed-lambda smoother at the reported lambda",
        "Every recorded call of ws2doptv / ws2doptvp / ws2doptvplc / whitsvc is decided by TLC: the reported lambda is the log10-midpoint of two consecutive grid entries, its V-curve ordinate -- computed from exact curves at every grid value -- is within the tie band of the minimum, the band is the (asymmetric) fixed-lambda smoother at that lambda (C03's contract), sgrid is float32(log10 lambda), and the autocorrelation variant sweeps -2..1.0 where lc > 0.5 and 0..3.0 elsewhere, NaN included (the swept grid is logged from the kernel source).",
        "ln / sqrt / 10^x only rank candidates inside the tie band; grid values where the asymmetric sweep did not converge and degenerate criteria (perfect fit) are SKIPped and counted.", "7/C04"),
    "C05": _c("tlc-smooth", "TLC trace validation against the GCV contract of spec/Smooth.tla (exact curves and scores at every grid value, optimum within a 1e-6 tie band, band = fixed-lambda smoother) + robust-mode families (KeepsAffine, NotZeroed, InGrid)",
        "Non-robust calls of ws2dwcv / ws2dwcvp / whitswcv: TLC recomputes the GCV score sum w (y-z)^2 / (n (1 - trH/n)^2) from exact curves at every grid value and requires the reported lambda to be a grid value within the tie band of the minimum and the band to be the (asymmetric) fixed-lambda smoother at it. Robust calls: lambda in the grid; constant and exactly linear series with gaps come back unchanged, flat series with isolated spikes stay within [L-2H, L+2H] (not zeroed), each under two nodata placeholders (placeholder independence itself is C02's linked clause).",
        "The robust band has no exact contract (only the consequences the property states are decided).", "7/C05"),
    "C06": _c("tlc-smooth", "TLC validation of linked executions (integer offset, time reversal, exactly linear series) with TraceSmooth!Link",
        "For every variant: the series shifted by an integer constant (placeholder shifted too) must give the band shifted by that constant and the same lambda; the reversed series the reversed band (fixed and V-curve variants); an exactly linear or constant series with gaps must come back as the line itself at every cell. Differences are granted only on ties established by the exact contracts (as C02).",
        "Sampled; robust GCV differences of one unit in one cell are SKIPped.", "7/C06"),
})

CHECKS.update({
    "C13": _c("tlc-engines", "paired execution (compiled vs Python source in the interpreter) of all 35 programs, agreement decided by TLC against spec/Engines.tla (catalogue + tolerance / rounding-tie semantics)",
        "Every @njit / @guvectorize kernel of hdc.algo.ops (21 + 14, the catalogue is an ASSUME-checked constant of the specification) is run compiled and as its own Python source under the interpreter (py_func, or the function behind lazycompile re-created over numpy dtypes) on the same inputs for every signature dtype, boundary sizes and dtype-edge values; TLC decides Engines!Agree per result cell: 1e-9 relative for float64, single precision for float32 inputs, integers equal except where the source's unrounded value sits on a rounding tie, same outcome (both raise or both return).",
        "Differential by nature: the specification contributes the catalogue and the agreement semantics. Callee kernels inside a source stay compiled. Known finding C13-F2 (math.log(0) domain behaviour) is reported, not raised.", "7/C13", level="translation_validation"),
    "C14": _c("tlc-bounds", "TLC: index-safety invariants of the kernel machines and access-set models (spec/IndexModels.tla) over all boundary sizes; TLC validation of every kernel compiled with NUMBA_BOUNDSCHECK=1 and run twice on garbage-prefilled outputs",
        "Index safety is an invariant of the step machines (Ws2d!IndexOK / NoWrap incl. n = 2, 3; RollIndexOK; tinterpolate cursors; iteragg slices) and, for the other kernels, of access sets written as functions of the input sizes and checked for all sizes 0..7 under the documented contracts, with negative controls when a contract is dropped. On the compiled code a fresh subprocess builds all 35 kernels with numba's bounds checking and runs boundary-sized inputs (minimum lengths, single pixel / group / zone, window == length, all-missing, one valid) twice on output buffers pre-filled with different garbage; TLC requires no IndexError, no exception and identical results (every output element written).",
        "Relies on numba's own bounds checking to report out-of-range indices; memory errors inside numba / LLVM / SciPy are outside this technique. The bounds-checked worker also calls every accessor operation in three stored layouts and zonal.mean with transposed zone rasters (eager and dask), and poisons the heap with different bytes before each of the two repeated calls.", "7/C14"),
})

# input families added in rounds i / j of the seeded changes (DESIGN section 10)
ROUND_IJ = {
    "C01": " Argument types of the public core: integer / bool / float32 weights, int16 / float32 data, lambda as a Python int.",
    "C04": " Ladders from 1e-10; sweeps whose fit share lies between 1e-22 and 1e-12 are judged with a 1 % tie band, below 1e-22 SKIPped as rounding noise.",
    "C05": " Grids of very small lambdas only (1e-9 .. 1e-7); same two thresholds on the residual share as C04.",
    "C07": " Accessor axes stamped at 00:00, 12:00 and 18:30 in turn.",
    "C08": " NaN cells in float cubes with a numeric nodata (for the specification: the class of negative values); zero share above 90 % only among the observations.",
    "C09": " Process history on axes of more than 1000 steps (a complete record, then the same record with an interior stretch missing).",
    "C10": " Chains of neighbouring representable float32 / float64 numbers (one ulp apart is strictly ordered).",
    "C12": " Twin runs: two lazy results of one operation on one dask array differing in one argument or attribute, evaluated in one graph (11 operations).",
    "C13": " A few counts of spread on a large offset (cancellation amplifies any re-association or FMA contraction).",
    "C14": " Negative and NaN cells in fitted SPI pixels; the second run surrounds the pixel with different neighbours; C-allocator free lists poisoned.",
    "C15": " Every accessor case also evaluated jointly with the same dask array under another nodata attribute, in both orders.",
    "C16": " Neighbours of the sentinel (1..300 integer steps, 1..3 ulp, relative 1e-7 / 3e-6).",
    "C18": " Time coordinates without an index for croo.",
    "C19": " float64 and float32 cubes in turn (mean tolerance follows the cube's type).",
}
for _k, _v in ROUND_IJ.items():
    CHECKS[_k]["note"] += _v

NOT_YET = "check not built yet in this round (see DESIGN.md section 11 for the build order)"


def build():
    checks = []
    for pid in ALL:
        c = CHECKS.get(pid)
        if not c:
            continue
        checks.append(
            {
                "property_id": pid,
                "quick_cmd": f"./check {pid} --tier quick",
                "thorough_cmd": f"./check {pid} --tier thorough",
                "evidence_file": f"/verif/evidence/{pid}.json",
                "replay_cmd_template": f"./check {pid} --replay {{path}}",
                "engine": c["engine"],
                "level_claimed": {"category": c.get("level", MC), "text": c["text"], "design_ref": c["design"]},
                "level_note": c["note"],
                "technique": c["technique"],
            }
        )
    engines = {}
    for pid, c in CHECKS.items():
        engines.setdefault(c["engine"], []).append(pid)
    man = {
        "version": 1,
        "setup_cmd": "./setup.sh",
        "hooks": {
            "guard": "HDC_ALGO_VERIF",
            "enable": "no in-repo hooks are needed: every observation point is reachable from outside (public kernels, .py_func/.__wrapped__ sources, accessors); the guard is reserved and exported by ./check",
            "baseline_off_cmd": "cd /repo && /venv/bin/python -m pytest -ra -q -p no:cacheprovider --timeout=900 --continue-on-collection-errors",
            "source_commits": [],
            "add_only": True,
        },
        "engines": [
            {"name": n, "path": "/verif/spec + /verif/harness", "serves_properties": sorted(p), "kind_free_text": "TLA+ specification checked with TLC (exhaustive small scope) + TLC trace validation of recorded executions of the real code"}
            for n, p in sorted(engines.items())
        ],
        "checks": checks,
        "not_applicable": [{"property_id": p, "reason": NA.get(p, NOT_YET)} for p in ALL if p not in CHECKS],
        "notes": "exit 0 held / 1 VIOLATION / 2 machinery failure. Genuine defects repaired by fix: commits are listed in known_findings.json ('fixed').",
    }
    (VERIF / "MANIFEST.json").write_text(json.dumps(man, indent=1) + "\n")
    return man


NA: dict = {}

if __name__ == "__main__":
    m = build()
    try:
        import jsonschema

        jsonschema.validate(m, json.load(open("/root/.vp/MANIFEST.schema.json")))
        print("MANIFEST.json valid;", len(m["checks"]), "checks")
    except ImportError:
        print("written (jsonschema not available)")
