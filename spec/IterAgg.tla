------------------------------ MODULE IterAgg ------------------------------
(***************************************************************************)
(* IterativeAggregation._iteragg (hdc/algo/accessors.py): the generator    *)
(* behind hdc.iteragg.sum / mean / full.                                   *)
(*                                                                         *)
(* The axis is a strictly increasing sequence of integer labels (the       *)
(* harness maps time stamps to integers).  Positions are 0-based as in the *)
(* code; None == -1 stands for "argument not given".                       *)
(***************************************************************************)
EXTENDS Integers, Sequences, FiniteSets

None == -1
Max(S) == CHOOSE m \in S : \A o \in S : o <= m
Min(S) == CHOOSE m \in S : \A o \in S : m <= o
Abs(a) == IF a < 0 THEN -a ELSE a

----------------------------------------------------------------------------
(* CONTRACT *)
\* positions (0-based) at which a label can be located under a lookup method
Pos(axis, lab, method) ==
    LET N == Len(axis) IN
    CASE method = "exact"   -> {i \in 0..(N - 1) : axis[i + 1] = lab}
      [] method = "ffill"   -> LET S == {i \in 0..(N - 1) : axis[i + 1] <= lab}
                               IN IF S = {} THEN {} ELSE {Max(S)}
      [] method = "bfill"   -> LET S == {i \in 0..(N - 1) : axis[i + 1] >= lab}
                               IN IF S = {} THEN {} ELSE {Min(S)}
      [] method = "nearest" -> {i \in 0..(N - 1) : \A j \in 0..(N - 1) :
                                   Abs(axis[i + 1] - lab) <= Abs(axis[j + 1] - lab)}

BeginPos(axis, b, method) == IF b = None THEN {Len(axis) - 1} ELSE Pos(axis, b, method)
EndPos(axis, e, method)   == IF e = None THEN {0} ELSE Pos(axis, e, method)

\* the windows <<first, last>> (0-based, inclusive) of exactly n steps whose
\* last step lies between positions ep and bp, newest first
RECURSIVE WindowsFrom(_, _, _)
WindowsFrom(L, ep, n) ==
    IF L < ep THEN <<>>
    ELSE IF L - n + 1 >= 0 THEN <<<<L - n + 1, L>>>> \o WindowsFrom(L - 1, ep, n)
    ELSE WindowsFrom(L - 1, ep, n)
Windows(bp, ep, n) == WindowsFrom(bp, ep, n)

\* declarative reading of the same thing (checked equal in MCIterAgg)
WindowSet(N, bp, ep, n) == {<<L - n + 1, L>> : L \in {L \in ep..bp : L - n + 1 >= 0 /\ L <= N - 1}}

\* what a call may do: raise ValueError, or yield one of these sequences
MustRaise(axis, b, e, method) == BeginPos(axis, b, method) = {} \/ EndPos(axis, e, method) = {}
Allowed(axis, n, b, e, method) ==
    {Windows(bp, ep, n) : bp \in BeginPos(axis, b, method), ep \in EndPos(axis, e, method)}

----------------------------------------------------------------------------
(* ALGORITHM: the generator as a state machine.  get_indexer returns -1    *)
(* for a label it cannot locate; Variant "raise" turns that into           *)
(* ValueError (repaired code), Variant "pinned" carries on with -1 as the  *)
(* pinned commit does (begin_ix = 0: silently empty; end_ix = -1: the      *)
(* lower bound is never met).                                              *)
CONSTANT Variant
VARIABLES axis, n, bLab, eLab, method,      \* the call
          pc, beginIx, endIx, ii, out        \* generator state
vars == <<axis, n, bLab, eLab, method, pc, beginIx, endIx, ii, out>>
call == <<axis, n, bLab, eLab, method>>

GetIndexer(lab) ==      \* set of possible answers of Index.get_indexer
    LET P == Pos(axis, lab, method) IN IF P = {} THEN {-1} ELSE P

Start(A, nn, b, e, m) ==
    /\ axis = A /\ n = nn /\ bLab = b /\ eLab = e /\ method = m
    /\ pc = "begin" /\ beginIx = 0 /\ endIx = 0 /\ ii = 0 /\ out = <<>>

LookupBegin ==
    /\ pc = "begin"
    /\ IF bLab = None
       THEN beginIx' = Len(axis) /\ pc' = "end"
       ELSE \E r \in GetIndexer(bLab) :
              IF r = -1 /\ Variant = "raise"
              THEN pc' = "raised" /\ UNCHANGED beginIx
              ELSE beginIx' = r + 1 /\ pc' = "end"
    /\ UNCHANGED <<call, endIx, ii, out>>

LookupEnd ==
    /\ pc = "end"
    /\ IF eLab = None
       THEN endIx' = 0 /\ pc' = "loop" /\ ii' = beginIx
       ELSE \E r \in GetIndexer(eLab) :
              IF r = -1 /\ Variant = "raise"
              THEN pc' = "raised" /\ UNCHANGED <<endIx, ii>>
              ELSE endIx' = r /\ pc' = "loop" /\ ii' = beginIx
    /\ UNCHANGED <<call, beginIx, out>>

\* for ii in range(begin_ix, 0, -1)
Exhausted == pc = "loop" /\ ii <= 0 /\ pc' = "done" /\ UNCHANGED <<call, beginIx, endIx, ii, out>>
Break     == pc = "loop" /\ ii > 0 /\ ii <= endIx /\ pc' = "done" /\ UNCHANGED <<call, beginIx, endIx, ii, out>>
Skip      == /\ pc = "loop" /\ ii > 0 /\ ii > endIx /\ ~(ii - n >= 0)
             /\ ii' = ii - 1 /\ UNCHANGED <<call, pc, beginIx, endIx, out>>
Yield     == /\ pc = "loop" /\ ii > 0 /\ ii > endIx /\ ii - n >= 0
             /\ out' = Append(out, <<ii - n, ii - 1>>)       \* slice(jj, ii)
             /\ ii' = ii - 1 /\ UNCHANGED <<call, pc, beginIx, endIx>>

Next == LookupBegin \/ LookupEnd \/ Exhausted \/ Break \/ Skip \/ Yield

\* every slice the generator takes lies inside the axis
SliceOK == \A k \in 1..Len(out) : 0 <= out[k][1] /\ out[k][1] <= out[k][2] /\ out[k][2] <= Len(axis) - 1
\* the property, on the machine
ContractOK ==
    /\ pc = "raised" => MustRaise(axis, bLab, eLab, method)
    /\ pc = "done"   => /\ ~MustRaise(axis, bLab, eLab, method)
                        /\ out \in Allowed(axis, n, bLab, eLab, method)
    /\ pc = "loop"   => \E w \in Allowed(axis, n, bLab, eLab, method) :
                            Len(out) <= Len(w) /\ SubSeq(w, 1, Len(out)) = out
=============================================================================
