------------------------------- MODULE Ws2dFn -------------------------------
(***************************************************************************)
(* ws2d (hdc/algo/ops/ws2d.py) as one function: the same rows as the       *)
(* machine in Ws2d.tla, folded over the index range.  MCWs2d* check that   *)
(* machine and function agree and that both solve the normal equations.    *)
(***************************************************************************)
EXTENDS Integers, Sequences
CONSTANTS Add(_, _), Sub(_, _), Mul(_, _), Div(_, _), FromInt(_)
Sq(a) == Mul(a, a)
I(k) == FromInt(k)

(* the same algorithm as one function (folded evaluation for trace         *)
(* validation of the smoothers): Solve(Y, W, L) = final z as a sequence    *)
RECURSIVE FwdRows(_, _, _, _, _, _, _, _)
FwdRows(Y, W, L, k, D, C, E, Z) ==     \* k: 1-based row to compute, rows 3..n-2 (0-based 2..m-2)
    IF k > Len(Y) - 2 THEN <<D, C, E, Z>>
    ELSE LET dk == Sub(Sub(Add(W[k], Mul(I(6), L)), Mul(Sq(C[k - 1]), D[k - 1])), Mul(Sq(E[k - 2]), D[k - 2]))
             ck == Div(Sub(Mul(I(-4), L), Mul(Mul(D[k - 1], C[k - 1]), E[k - 1])), dk)
             ek == Div(L, dk)
             zk == Sub(Sub(Mul(W[k], Y[k]), Mul(C[k - 1], Z[k - 1])), Mul(E[k - 2], Z[k - 2]))
         IN  FwdRows(Y, W, L, k + 1, Append(D, dk), Append(C, ck), Append(E, ek), Append(Z, zk))

RECURSIVE BackRows(_, _, _, _, _, _)
BackRows(D, C, E, ZF, k, acc) ==       \* acc = <<z_{k+1}, z_{k+2}, ...>> already final; k 1-based
    IF k < 1 THEN acc
    ELSE LET zk == Sub(Sub(Div(ZF[k], D[k]), Mul(C[k], acc[1])), Mul(E[k], acc[2]))
         IN  BackRows(D, C, E, ZF, k - 1, <<zk>> \o acc)

Solve(Y, W, L) ==      \* requires Len(Y) >= 4
    LET nn == Len(Y)
        d1 == Add(W[1], L)
        c1 == Div(Mul(I(-2), L), d1)
        e1 == Div(L, d1)
        z1 == Mul(W[1], Y[1])
        d2 == Sub(Add(W[2], Mul(I(5), L)), Mul(d1, Sq(c1)))
        c2 == Div(Sub(Mul(I(-4), L), Mul(Mul(d1, c1), e1)), d2)
        e2 == Div(L, d2)
        z2 == Sub(Mul(W[2], Y[2]), Mul(c1, z1))
        f  == FwdRows(Y, W, L, 3, <<d1, d2>>, <<c1, c2>>, <<e1, e2>>, <<z1, z2>>)
        D == f[1]  C == f[2]  E == f[3]  Z == f[4]
        a == nn - 1       \* 1-based index of row m-1
        da == Sub(Sub(Add(W[a], Mul(I(5), L)), Mul(Sq(C[a - 1]), D[a - 1])), Mul(Sq(E[a - 2]), D[a - 2]))
        ca == Div(Sub(Mul(I(-2), L), Mul(Mul(D[a - 1], C[a - 1]), E[a - 1])), da)
        za == Sub(Sub(Mul(W[a], Y[a]), Mul(C[a - 1], Z[a - 1])), Mul(E[a - 2], Z[a - 2]))
        dn == Sub(Sub(Add(W[nn], L), Mul(Sq(ca), da)), Mul(Sq(E[a - 1]), D[a - 1]))
        zn == Div(Sub(Sub(Mul(W[nn], Y[nn]), Mul(ca, za)), Mul(E[a - 1], Z[a - 1])), dn)
        zaf == Sub(Div(za, da), Mul(ca, zn))
    IN  BackRows(D, C, E, Z, a - 1, <<zaf, zn>>)
=============================================================================
