------------------------------- MODULE HdcAlgo -------------------------------
(***************************************************************************)
(* Top level: a session of accessor calls against one process.             *)
(* State: the set of lazily compiled kernels whose lazycompile cell is     *)
(* filled (ops/_helper.py), and the log of accepted operations.            *)
(* A call is rejected with its documented exception (Accessors!Expected)   *)
(* WITHOUT touching any kernel, or accepted, in which case exactly the     *)
(* kernels the operation dispatches to are compiled on first use and stay  *)
(* compiled.  This is where "which accessor uses which kernel" is stated.  *)
(***************************************************************************)
EXTENDS Accessors, FiniteSets

LazyKernels == {"ws2dgu", "ws2dpgu", "ws2doptv", "ws2doptvp", "ws2doptvplc", "ws2dwcv", "ws2dwcvp", "tinterpolate", "lroo",
                "autocorr", "autocorr_tyx", "ws2doptvplc_tyx", "do_mean", "gammastd_grp", "mean_grp", "rolling_sum",
                "_mann_kendall_trend_gu", "_mann_kendall_trend_gu_nd"}

\* the lazily compiled kernels an ACCEPTED call dispatches to
KernelsOf(op, f) ==
    CASE op = "whits"       -> IF f.p THEN {"ws2dpgu"} ELSE {"ws2dgu"}
      [] op = "whitsvc"     -> IF f.lc THEN {"ws2doptvplc"} ELSE IF f.p THEN {"ws2doptvp"} ELSE {"ws2doptv"}
      [] op = "whitswcv"    -> IF f.p THEN {"ws2dwcvp"} ELSE {"ws2dwcv"}
      [] op = "whitint"     -> {"tinterpolate"}
      [] op = "spi"         -> IF f.groups THEN {"gammastd_grp"} ELSE {}
      [] op = "lroo"        -> {"lroo"}
      [] op = "croo"        -> {}
      [] op = "autocorr"    -> IF f.timefirst THEN {"autocorr_tyx"} ELSE {"autocorr"}
      [] op = "mktrend"     -> IF f.nodataattr THEN {"_mann_kendall_trend_gu_nd"} ELSE {"_mann_kendall_trend_gu"}
      [] op = "mean_grp"    -> {"mean_grp"}
      [] op = "rolling_sum" -> {"rolling_sum"}
      [] op = "zonal_mean"  -> {"do_mean"}
      [] op = "iteragg"     -> {}
      [] op = "dekad"       -> {}
      [] OTHER              -> {}

VARIABLES compiled
hvars == <<compiled>>
HInit == compiled = {}
Invoke(op, f) ==
    IF Expected(op, f) = "ok"
    THEN compiled' = compiled \cup KernelsOf(op, f)
    ELSE UNCHANGED hvars                       \* a rejected call compiles nothing

\* invariants of any session (no history variable: the log of accepted calls would multiply the
\* state space by 2^108 without adding behaviour)
OnlyLazyKernels == compiled \subseteq LazyKernels
Monotone == [][compiled \subseteq compiled']_hvars
=============================================================================
