-------------------------------- MODULE Ws2d --------------------------------
(***************************************************************************)
(* hdc/algo/ops/ws2d.py: the LDL' solver of the pentadiagonal system,      *)
(* row by row as the code does it.  Arrays are functions on 0..n-1 and an  *)
(* index k is used as the code uses it (negative indices wrap, as in       *)
(* Python/numba); IndexOK is the bounds claim of C14, NoWrap the stronger  *)
(* fact that holds for n >= 4.                                             *)
(*                                                                         *)
(* pc values: "row0","row1","fwd","rowm1","rowm","backm1","back","ret".    *)
(***************************************************************************)
EXTENDS Integers, Sequences
CONSTANTS Add(_, _), Sub(_, _), Mul(_, _), Div(_, _), FromInt(_)

P == INSTANCE Penalty
Zero == FromInt(0)
Sq(a) == Mul(a, a)
I(k) == FromInt(k)

VARIABLES y, w, lam, n,          \* inputs (y, w: functions 0..n-1 -> field)
          d, c, e, z, pc, i,     \* the code's locals
          touched                \* indices used by the last step (for IndexOK)
vars == <<y, w, lam, n, d, c, e, z, pc, i, touched>>
inputs == <<y, w, lam, n>>

Ix(k) == IF k < 0 THEN k + n ELSE k           \* Python index semantics
m == n - 1

Init(Y, W, L) ==      \* Y, W: sequences (1-based) of field elements
    /\ n = Len(Y)
    /\ y = [k \in 0..(Len(Y) - 1) |-> Y[k + 1]]
    /\ w = [k \in 0..(Len(Y) - 1) |-> W[k + 1]]
    /\ lam = L
    /\ d = [k \in 0..(Len(Y) - 1) |-> Zero] /\ c = d /\ e = d /\ z = d
    /\ pc = "row0" /\ i = 0 /\ touched = {}

Row0 ==
    /\ pc = "row0"
    /\ LET d0 == Add(w[0], lam) IN
         /\ d' = [d EXCEPT ![0] = d0]
         /\ c' = [c EXCEPT ![0] = Div(Mul(I(-2), lam), d0)]
         /\ e' = [e EXCEPT ![0] = Div(lam, d0)]
         /\ z' = [z EXCEPT ![0] = Mul(w[0], y[0])]
    /\ pc' = "row1" /\ touched' = {0} /\ UNCHANGED <<inputs, i>>

Row1 ==
    /\ pc = "row1"
    /\ LET d1 == Sub(Add(w[1], Mul(I(5), lam)), Mul(d[0], Sq(c[0]))) IN
         /\ d' = [d EXCEPT ![1] = d1]
         /\ c' = [c EXCEPT ![1] = Div(Sub(Mul(I(-4), lam), Mul(Mul(d[0], c[0]), e[0])), d1)]
         /\ e' = [e EXCEPT ![1] = Div(lam, d1)]
         /\ z' = [z EXCEPT ![1] = Sub(Mul(w[1], y[1]), Mul(c[0], z[0]))]
    /\ pc' = "fwd" /\ i' = 2 /\ touched' = {0, 1} /\ UNCHANGED inputs

\* for i in range(2, m - 1)
Fwd ==
    /\ pc = "fwd"
    /\ IF i < m - 1
       THEN LET i1 == i - 1  i2 == i - 2
                di == Sub(Sub(Add(w[i], Mul(I(6), lam)), Mul(Sq(c[i1]), d[i1])), Mul(Sq(e[i2]), d[i2]))
            IN  /\ d' = [d EXCEPT ![i] = di]
                /\ c' = [c EXCEPT ![i] = Div(Sub(Mul(I(-4), lam), Mul(Mul(d[i1], c[i1]), e[i1])), di)]
                /\ e' = [e EXCEPT ![i] = Div(lam, di)]
                /\ z' = [z EXCEPT ![i] = Sub(Sub(Mul(w[i], y[i]), Mul(c[i1], z[i1])), Mul(e[i2], z[i2]))]
                /\ i' = i + 1 /\ touched' = {i, i1, i2} /\ UNCHANGED pc
       ELSE pc' = "rowm1" /\ UNCHANGED <<d, c, e, z, i, touched>>
    /\ UNCHANGED inputs

RowM1 ==
    /\ pc = "rowm1"
    /\ LET i1 == Ix(m - 2)  i2 == Ix(m - 3)  k == Ix(m - 1)
           dk == Sub(Sub(Add(w[k], Mul(I(5), lam)), Mul(Sq(c[i1]), d[i1])), Mul(Sq(e[i2]), d[i2]))
       IN  /\ d' = [d EXCEPT ![k] = dk]
           /\ c' = [c EXCEPT ![k] = Div(Sub(Mul(I(-2), lam), Mul(Mul(d[i1], c[i1]), e[i1])), dk)]
           /\ z' = [z EXCEPT ![k] = Sub(Sub(Mul(w[k], y[k]), Mul(c[i1], z[i1])), Mul(e[i2], z[i2]))]
           /\ touched' = {m - 1, m - 2, m - 3}
    /\ pc' = "rowm" /\ UNCHANGED <<inputs, e, i>>

RowM ==
    /\ pc = "rowm"
    /\ LET i1 == Ix(m - 1)  i2 == Ix(m - 2)
           dm == Sub(Sub(Add(w[m], lam), Mul(Sq(c[i1]), d[i1])), Mul(Sq(e[i2]), d[i2]))
       IN  /\ d' = [d EXCEPT ![m] = dm]
           /\ z' = [z EXCEPT ![m] = Div(Sub(Sub(Mul(w[m], y[m]), Mul(c[i1], z[i1])), Mul(e[i2], z[i2])), dm)]
           /\ touched' = {m, m - 1, m - 2}
    /\ pc' = "backm1" /\ UNCHANGED <<inputs, c, e, i>>

BackM1 ==
    /\ pc = "backm1"
    /\ LET k == Ix(m - 1) IN z' = [z EXCEPT ![k] = Sub(Div(z[k], d[k]), Mul(c[k], z[m]))]
    /\ pc' = "back" /\ i' = m - 2 /\ touched' = {m - 1, m} /\ UNCHANGED <<inputs, d, c, e>>

\* for i in range(m - 2, -1, -1)
Back ==
    /\ pc = "back"
    /\ IF i >= 0
       THEN /\ z' = [z EXCEPT ![i] = Sub(Sub(Div(z[i], d[i]), Mul(c[i], z[i + 1])), Mul(e[i], z[i + 2]))]
            /\ i' = i - 1 /\ touched' = {i, i + 1, i + 2} /\ UNCHANGED pc
       ELSE pc' = "ret" /\ UNCHANGED <<z, i, touched>>
    /\ UNCHANGED <<inputs, d, c, e>>

Next == Row0 \/ Row1 \/ Fwd \/ RowM1 \/ RowM \/ BackM1 \/ Back

----------------------------------------------------------------------------
ZSeq == [k \in 1..n |-> z[k - 1]]
YSeq == [k \in 1..n |-> y[k - 1]]
WSeq == [k \in 1..n |-> w[k - 1]]

IndexOK == \A k \in touched : -n <= k /\ k < n         \* C14 (wrap-around allowed)
NoWrap  == n >= 4 => \A k \in touched : 0 <= k /\ k < n
\* C01: the returned z solves (W + lam D'D) z = W y
SolvesPLS == (pc = "ret" /\ n >= 4) => P!IsPLS(ZSeq, YSeq, WSeq, lam)

\* the factorisation invariant: after the forward sweep, L diag(d) L' is the
\* normal matrix, where L has unit diagonal, c on the first and e on the
\* second subdiagonal.  Entry (r, s) of L diag(d) L', r >= s, 0-based:
LEntry(r, s) == IF r = s THEN I(1) ELSE IF r = s + 1 THEN c[s] ELSE IF r = s + 2 THEN e[s] ELSE Zero
LDLt(r, s) == LET T(k) == Mul(Mul(LEntry(r, k), d[k]), LEntry(s, k)) IN P!FSum(T, IF s - 2 < 0 THEN 0 ELSE s - 2, s)
NormalEntry(r, s) == Add(IF r = s THEN w[r] ELSE Zero, Mul(lam, I(P!DtD(n, r + 1, s + 1))))
Factorised == (pc \in {"backm1", "back", "ret"} /\ n >= 4) =>
                 \A r \in 0..(n - 1) : \A s \in (IF r - 2 < 0 THEN 0 ELSE r - 2)..r : LDLt(r, s) = NormalEntry(r, s)

----------------------------------------------------------------------------
(* folded form (module Ws2dFn) *)
F == INSTANCE Ws2dFn
Solve(Y, W, L) == F!Solve(Y, W, L)
=============================================================================
