"""C12 - results do not depend on laziness, chunking, layout or threading.

(A) MCLazyCompile: 2 and 3 threads racing through the wrapper's critical points (full state
    graph, invariants, termination under fairness).  MCBlockedApply: every partition of a
    pixel grid, 1-2 workers, every completion order: pixel locality; negative control "scratch".
(B) TraceLazyCompile: EVERY interleaving of the real wrapper's critical points for two threads
    (stateless DFS under a sys.monitoring scheduler), a seeded sample for three; real unscheduled
    races with the real numba compile in fresh subprocesses.
    TraceBlocked: every accessor operation eager vs dask (chunkings, schedulers, dimension orders,
    permuted pixels, chunked time), prange kernel under 1..16 threads.
"""
from __future__ import annotations

import hashlib
import json
import os
import random
import subprocess
import sys

import numpy as np

from .. import core

ND = -3000


# --------------------------------------------------------------------------------------
# lazycompile
# --------------------------------------------------------------------------------------
def lazy_mc(rep, quick):
    inv = "INVARIANT CellIsKernelOrNone\nINVARIANT CallsOnlyKernels\nINVARIANT ResultsAreF\nINVARIANT CompileBound\nPROPERTY OnceSetNeverNone\nPROPERTY Termination\n"
    cfg2 = "SPECIFICATION Spec\nCHECK_DEADLOCK FALSE\nCONSTANTS\n T1 = T1\n T2 = T2\n T3 = T3\n Thread <- Thread2\n Calls <- CallsDef2\n" + inv
    cfg3 = "SPECIFICATION Spec\nCHECK_DEADLOCK FALSE\nCONSTANTS\n T1 = T1\n T2 = T2\n T3 = T3\n Thread <- Thread3\n Calls <- CallsDef3\n" + inv
    defs = "Thread2 == {T1, T2}\nThread3 == {T1, T2, T3}\n"
    r = core.must_pass(core.tlc("MCLazyCompile", cfg2, defs=defs, workers=4, timeout=900, coverage=True), "lazycompile N=2")
    cov = r.coverage()
    for a in ("Enter", "Check", "Compile", "Publish", "Fetch", "Invoke"):
        if not cov.get(f"LazyCompile!{a}"):
            raise core.Machinery(f"vacuous: LazyCompile!{a} never taken {cov}")
    rep.add_mc("MCLazyCompile 2 threads (2+1 calls): invariants + termination", r, coverage=cov)
    r = core.must_pass(core.tlc("MCLazyCompile", cfg3, defs=defs, workers=core.NCPU, timeout=1800), "lazycompile N=3")
    rep.add_mc("MCLazyCompile 3 threads: invariants + termination", r)


def lazy_traces(rep, quick, seed):
    from hdc.algo.ops._helper import lazycompile

    from ..sched import Explorer

    traces = []
    traces += Explorer(lazycompile, 2, [1, 1]).explore()
    n_ex2 = len(traces)
    traces += Explorer(lazycompile, 2, [2, 1]).explore(limit=3000 if quick else 40000)
    rng = random.Random(seed + 12)
    traces += Explorer(lazycompile, 3, [1, 1, 1]).explore(limit=400 if quick else 4000, rng=rng)
    for i, t in enumerate(traces):
        t["tid"] = i + 1
        for e in t["events"]:
            e["val"] = str(e["val"]) if e["val"] else ""
    cfg = "SPECIFICATION TraceSpec\nCHECK_DEADLOCK FALSE\nCONSTANTS\n Thread <- ThreadDef\n Calls <- CallsDef\nINVARIANT StepInv\n"
    defs = "ThreadDef == 1..3\nCallsDef == [t \\in 1..3 |-> 9]\n"
    payload = [{"tid": t["tid"], "events": t["events"]} for t in traces]
    verdicts, st = core.validate_batch("TraceLazyCompile", payload, cfg=cfg, defs=defs, per_jvm=4000, timeout=3000)
    rep.add_stats("TraceLazyCompile (scheduled interleavings of the real wrapper)", st, len(traces))
    rep.extra["lazycompile_interleavings_2x1call_exhaustive"] = n_ex2
    rep.extra["lazycompile_double_compile_traces"] = sum(1 for t in traces if t["compiles"] > 1)
    rep.sample({"lazycompile_trace": [(e["t"], e["a"], e["cell"]) for e in traces[min(7, len(traces) - 1)]["events"]]})
    for t in payload:
        t["family"] = "lazycompile"
    rep.settle(payload, verdicts)
    return len(traces)


RACE_SCRIPT = r"""
import sys, json, threading, hashlib
import numpy as np
sys.path.insert(0, sys.argv[1])
kernel, nthreads = sys.argv[2], int(sys.argv[3])
from harness.props.c12 import race_call
res, exc = [None] * nthreads, []
bar = threading.Barrier(nthreads)
def body(i):
    try:
        bar.wait()
        res[i] = race_call(kernel)
    except Exception as e:
        exc.append(type(e).__name__ + ":" + str(e)[:80])
ths = [threading.Thread(target=body, args=(i,)) for i in range(nthreads)]
[t.start() for t in ths]; [t.join() for t in ths]
print("RACE" + json.dumps({"digests": [r or "none" for r in res], "exceptions": exc}))
"""

RACE_KERNELS = ["ws2dgu", "lroo", "ws2dpgu", "ws2doptv", "ws2doptvp", "ws2doptvplc", "ws2dwcv", "ws2dwcvp", "tinterpolate", "autocorr", "autocorr_tyx",
                "ws2doptvplc_tyx", "do_mean", "gammastd_grp", "mean_grp", "rolling_sum", "_mann_kendall_trend_gu", "_mann_kendall_trend_gu_nd"]


def _dig(*arrs):
    h = hashlib.md5()
    for a in arrs:
        a = np.ascontiguousarray(a)
        h.update(str(a.dtype).encode() + str(a.shape).encode() + a.tobytes())
    return h.hexdigest()


def race_call(kernel):
    """one deterministic call of a lazily compiled kernel; returns a digest of its outputs"""
    from hdc.algo import ops
    from hdc.algo.ops import stats, zonal
    from hdc.algo.ops.ws2doptvplc import ws2doptvplc_tyx

    rs = np.random.RandomState(7)
    y = (3000 + 1000 * np.sin(np.arange(24) * 0.5) + rs.randint(-200, 200, 24)).astype("float64")
    y[[3, 11]] = ND
    yi = y.astype("int16")
    sr = np.arange(-2, 2.2, 0.4)
    cube = np.stack([yi, yi[::-1], yi + 5, yi * 0 + 7]).reshape(2, 2, 24)
    if kernel == "ws2dgu":
        out = (ops.ws2dgu(y, 10.0, ND),)
    elif kernel == "ws2dpgu":
        out = (ops.ws2dpgu(y, 10.0, ND, 0.9),)
    elif kernel == "ws2doptv":
        out = ops.ws2doptv(y, ND, sr)
    elif kernel == "ws2doptvp":
        out = ops.ws2doptvp(y, ND, 0.9, sr)
    elif kernel == "ws2doptvplc":
        out = ops.ws2doptvplc(yi, ND, 0.9, 0.7)
    elif kernel == "ws2dwcv":
        out = ops.ws2dwcv(y, ND, sr, False)
    elif kernel == "ws2dwcvp":
        out = ops.ws2dwcvp(y, ND, 0.9, sr, True)
    elif kernel == "lroo":
        out = (ops.lroo((yi > 3000).astype("uint8")),)
    elif kernel == "tinterpolate":
        tm = np.zeros(24 * 5 - 4)
        tm[::5] = 1
        lab = (np.arange(tm.size) // 10).astype("int32")
        out = (ops.tinterpolate(yi, tm, lab, np.zeros(len(np.unique(lab)), dtype="u1")),)
    elif kernel == "autocorr":
        out = (ops.autocorr(cube, ND),)
    elif kernel == "autocorr_tyx":
        out = (ops.autocorr_tyx(np.moveaxis(cube, 2, 0).copy(), ND),)
    elif kernel == "ws2doptvplc_tyx":
        out = ws2doptvplc_tyx(np.moveaxis(cube, 2, 0).copy(), 0.9, ND)
    elif kernel == "do_mean":
        out = (zonal.do_mean(np.moveaxis(cube, 2, 0).copy(), np.array([[0, 1], [1, 0]]), 2, ND, 255, np.float32),)
    elif kernel == "gammastd_grp":
        x = np.abs(yi).astype("int16")
        g = (np.arange(24) % 2).astype("int16")
        out = (stats.gammastd_grp(x, g, 2, ND, np.array([[0, 12], [0, 12]], dtype="int16")),)
    elif kernel == "mean_grp":
        out = (stats.mean_grp(yi, (np.arange(24) % 3).astype("int16"), 3, ND),)
    elif kernel == "rolling_sum":
        out = (stats.rolling_sum(yi, 3, ND),)
    elif kernel == "_mann_kendall_trend_gu":
        out = stats._mann_kendall_trend_gu(yi)
    elif kernel == "_mann_kendall_trend_gu_nd":
        out = stats._mann_kendall_trend_gu_nd(yi, ND)
    else:
        raise KeyError(kernel)
    return _dig(*out)


def races(rep, quick, seed):
    kernels = RACE_KERNELS[:2] if quick else RACE_KERNELS
    cases = []
    env = dict(os.environ, PYTHONPATH=f"/verif:{core.REPO}")
    procs = []
    for i, kn in enumerate(kernels):
        nth = [4, 8, 16][i % 3]
        procs.append((kn, nth, subprocess.Popen([sys.executable, "-W", "ignore", "-c", RACE_SCRIPT, str(core.REPO), kn, str(nth)], env=env, stdout=subprocess.PIPE, stderr=subprocess.PIPE, text=True)))
        if len(procs) >= 4:
            cases += _collect(procs)
            procs = []
    cases += _collect(procs)
    for c in cases:
        c["expected"] = race_call(c["kernel"])  # sequential call in this process (already-compiled or compiled alone)
        c["tid"] = 100000 + len(rep.samples) + cases.index(c)
    return cases


def _collect(procs):
    out = []
    for kn, nth, p in procs:
        so, se = p.communicate(timeout=900)
        line = [l for l in so.splitlines() if l.startswith("RACE")]
        if not line:
            raise core.Machinery(f"race subprocess for {kn} gave no result: {se[-400:]}")
        d = json.loads(line[0][4:])
        out.append({"op": "race", "kernel": kn, "threads": nth, "digests": d["digests"], "exceptions": d["exceptions"]})
    return out


# --------------------------------------------------------------------------------------
# eager vs lazy
# --------------------------------------------------------------------------------------
T = 12


def base_cube(seed, kind):
    import pandas as pd
    import xarray as xr

    rs = np.random.RandomState(seed)
    ny, nx = 3, 4
    time = pd.date_range("2000-01-01", periods=T, freq="10D")
    if kind == "int":
        a = (3000 + 1500 * np.sin(np.arange(T)[:, None, None] * 0.6 + rs.rand(1, ny, nx) * 6) + rs.randint(-300, 300, (T, ny, nx))).astype("int16")
        a[rs.rand(T, ny, nx) < 0.1] = ND
        a[:, 0, 0] = ND
        a[1:, 0, 1] = ND
    elif kind == "int0":      # the same kind of cube with the falsy nodata value 0 (valid cells are never 0)
        a = (3000 + 1500 * np.sin(np.arange(T)[:, None, None] * 0.6 + rs.rand(1, ny, nx) * 6) + rs.randint(-300, 300, (T, ny, nx))).astype("int16")
        a[a == 0] = 1
        a[rs.rand(T, ny, nx) < 0.15] = 0
        a[:, 0, 0] = 0
        return xr.DataArray(a, dims=("time", "y", "x"), coords={"time": time, "y": np.arange(ny) * 10.0, "x": np.arange(nx) * 5.0}, attrs={"nodata": 0})
    elif kind == "rain":
        a = rs.gamma(1.5, 30, (T, ny, nx)).astype("int16")
        a[rs.rand(T, ny, nx) < 0.15] = 0
        a[2, 1, 1] = ND
    else:  # binary
        a = (rs.rand(T, ny, nx) < 0.6).astype("uint8")
    return xr.DataArray(a, dims=("time", "y", "x"), coords={"time": time, "y": np.arange(ny) * 10.0, "x": np.arange(nx) * 5.0, "spatial_ref": 0,
                                                             "lon": (("y", "x"), np.arange(ny * nx, dtype="float64").reshape(ny, nx))}, attrs={"nodata": ND})


def catalog():
    import xarray as xr

    sr = np.arange(-2, 2.2, 0.4)
    tm = np.zeros(T * 5 - 4)
    tm[::5] = 1
    lab = (np.arange(tm.size) // 10).astype("int32")
    grp = (np.arange(T) % 3).astype("int16")

    def px(da, vals):
        return xr.DataArray(np.asarray(vals, dtype="float64").reshape(da.sizes["y"], da.sizes["x"]), dims=("y", "x"), coords={"y": da.y, "x": da.x})

    zones = lambda da: xr.DataArray((np.arange(da.sizes["y"] * da.sizes["x"]).reshape(da.sizes["y"], da.sizes["x"]) % 3).astype("int32"), dims=("y", "x"), coords={"y": da.y, "x": da.x}, attrs={"nodata": 255})  # noqa: E731
    return [
        ("whits_s", "int", lambda da, aux: da.hdc.whit.whits(ND, s=10.0)),
        ("whits_sg_p", "int", lambda da, aux: da.hdc.whit.whits(ND, sg=aux["sg"], p=0.9)),
        ("whitsvc", "int", lambda da, aux: da.hdc.whit.whitsvc(ND, srange=sr)),
        ("whitsvc_p", "int", lambda da, aux: da.hdc.whit.whitsvc(ND, srange=sr, p=0.9)),
        ("whitsvc_lc", "int", lambda da, aux: da.hdc.whit.whitsvc(ND, lc=aux["lc"], p=0.9)),
        ("whitswcv", "int", lambda da, aux: da.hdc.whit.whitswcv(ND, robust=False)),
        ("whitswcv_p_robust", "int", lambda da, aux: da.hdc.whit.whitswcv(ND, p=0.9, robust=True)),
        ("whitint", "int", lambda da, aux: da.hdc.whit.whitint(lab, tm)),
        ("spi", "rain", lambda da, aux: da.hdc.algo.spi()),
        ("spi_groups", "rain", lambda da, aux: da.hdc.algo.spi(groups=[str(g) for g in (np.arange(T) % 2)])),
        ("lroo", "bin", lambda da, aux: da.hdc.algo.lroo()),
        ("croo", "bin", lambda da, aux: da.hdc.algo.croo()),
        ("autocorr", "int", lambda da, aux: da.hdc.algo.autocorr()),
        ("mktrend", "int", lambda da, aux: da.hdc.algo.mktrend()),
        ("mean_grp", "int", lambda da, aux: da.hdc.algo.mean_grp(grp)),
        ("rolling_sum", "int", lambda da, aux: da.hdc.rolling.sum(3)),
        ("anom_ratio", "int", lambda da, aux: da.hdc.anom.ratio(da.isel(time=0), offset=1)),
        ("zonal_mean_f64", "int", lambda da, aux: da.hdc.zonal.mean(aux["zones"], [0, 1, 2], dtype="float64")),
        ("autocorr_nd0", "int0", lambda da, aux: da.hdc.algo.autocorr()),
        ("mktrend_nd0", "int0", lambda da, aux: da.hdc.algo.mktrend()),
        ("rolling_sum_nd0", "int0", lambda da, aux: da.hdc.rolling.sum(3)),
        ("mean_grp_nd0", "int0", lambda da, aux: da.hdc.algo.mean_grp(grp)),
        ("zonal_mean", "int", lambda da, aux: da.hdc.zonal.mean(aux["zones"], [0, 1, 2])),
    ], px, zones


def digest_result(r, ny, nx):
    """per-pixel digests (ordered y-major), dims, dtype, coords of a DataArray / Dataset"""
    import xarray as xr

    if isinstance(r, xr.Dataset):
        parts = {n: digest_result(r[n], ny, nx) for n in sorted(r.data_vars)}
        px = ["|".join(parts[n]["px"][i] for n in parts) for i in range(len(next(iter(parts.values()))["px"]))]
        return {"px": px, "dims": [f"{n}:{','.join(parts[n]['dims'])}" for n in parts], "dimsets": [f"{n}:{','.join(sorted(parts[n]['dims']))}" for n in parts],
                "dtype": ",".join(f"{n}:{parts[n]['dtype']}" for n in parts),
                "adtype": ",".join(f"{n}:{parts[n]['adtype']}" for n in parts), "coords": next(iter(parts.values()))["coords"]}
    adtype = str(r.dtype)  # what the (possibly lazy) object announces before anything is computed
    r = r.compute() if hasattr(r.data, "compute") else r
    dims = list(r.dims)
    coords = sorted(f"{c}={','.join(str(v) for v in np.asarray(r[c]).ravel().tolist()[:50])}" for c in r.coords if c in r.dims)
    # coordinates that are not an index of a dimension (a scalar spatial_ref, 2-d lon / lat): which of them the result keeps
    coords += sorted(f"aux:{c}" for c in r.coords if c not in r.dims and c != "time")
    if "y" in dims and "x" in dims:
        a = np.asarray(r.transpose("y", "x", ...))
        px = [hashlib.md5(np.ascontiguousarray(a[i, j]).tobytes()).hexdigest()[:12] for i in range(a.shape[0]) for j in range(a.shape[1])]
    else:
        px = [hashlib.md5(np.ascontiguousarray(np.asarray(r)).tobytes()).hexdigest()[:12]]
    return {"px": px, "dims": dims, "dimsets": sorted(dims), "dtype": str(r.dtype), "adtype": adtype, "coords": coords}


def blocked_cases(rep, quick, seed):
    import dask
    import xarray as xr

    cat, px, zones = catalog()
    rng = random.Random(seed * 13 + 12)
    cases = []
    for name, kind, fn in cat:
        da = base_cube(seed + 1, kind)
        ny, nx = da.sizes["y"], da.sizes["x"]
        aux = {"sg": px(da, np.linspace(-1, 2, ny * nx)), "lc": px(da, np.linspace(-0.2, 0.95, ny * nx)), "zones": zones(da)}
        aux["sg"][0, 2] = -np.inf

        def attempt(d, a, cfgname, kind_, timechunked=False, unperm=None, sched=None):
            rec = {"cfg": cfgname, "kind": kind_, "timechunked": timechunked, "px": [], "dims": [], "dtype": "", "coords": []}
            try:
                ctx = dask.config.set(scheduler=sched[0], num_workers=sched[1]) if sched and sched[0] != "synchronous" else dask.config.set(scheduler="synchronous")
                with ctx:
                    r = fn(d, a)
                    dg = digest_result(r, ny, nx)
                if unperm is not None and len(dg["px"]) == len(unperm):
                    inv = [0] * len(unperm)
                    for newpos, old in enumerate(unperm):
                        inv[old] = dg["px"][newpos]
                    dg["px"] = inv
                rec.update(dg)
                rec["outcome"] = "ok"
            except Exception as ex:
                rec["outcome"] = f"raise:{type(ex).__name__}"
            return rec

        base = attempt(da, aux, "eager", "eager")
        runs = []
        chunkings = [("1px", {"y": 1, "x": 1}), ("single", {"y": -1, "x": -1}), ("ragged", {"y": (2, 1), "x": (3, 1)})]
        scheds = [("synchronous", None), ("threads", 1), ("threads", 4), ("threads", 16)]
        combos = [(c, s) for c in chunkings for s in scheds]
        if quick:
            combos = [combos[0], combos[6], combos[11], rng.choice(combos)]
        for (cn, ch), sc in combos:
            d = da.chunk({"time": -1, **ch})
            a = {k: (v.chunk({kk: vv for kk, vv in ch.items()}) if name in ("whits_sg_p", "whitsvc_lc") else v) for k, v in aux.items()}
            runs.append(attempt(d, a, f"dask:{cn}:{sc[0]}{sc[1] or ''}", "lazy", sched=sc))
        # chunked time axis: refuse (or rechunk), never another value
        runs.append(attempt(da.chunk({"time": 5, "y": 2, "x": 2}), aux, "dask:time-chunked", "lazy", timechunked=True))
        # dimension orders (every operation, zonal.mean included: 82b24a3)
        for order in (("y", "x", "time"), ("y", "time", "x"), ("x", "y", "time"), ("time", "x", "y")):      # also x stored before y
            rr = attempt(da.transpose(*order), aux, "dims:" + ",".join(order), "dimorder")
            if name == "anom_ratio":
                rr["coords"] = base["coords"]
            runs.append(rr)
        # permuted pixels: results must move with the pixels
        perm = list(range(ny * nx))
        rng.shuffle(perm)
        flat = da.stack(p=("y", "x")).isel(p=perm)
        dperm = xr.DataArray(flat.data.reshape(T, ny, nx), dims=("time", "y", "x"), coords={"time": da.time, "y": da.y, "x": da.x, **{k: da.coords[k].variable for k in da.coords if k not in da.dims}}, attrs=da.attrs)
        aperm = {k: xr.DataArray(np.asarray(v).reshape(-1)[perm].reshape(ny, nx), dims=("y", "x"), coords={"y": da.y, "x": da.x}, attrs=v.attrs) for k, v in aux.items()}
        if not name.startswith("zonal_mean"):
            runs.append(attempt(dperm, aperm, "permuted-pixels", "perm", unperm=perm))
        else:
            runs.append(attempt(dperm, aperm, "permuted-pixels", "perm"))
        cases.append({"op": "blocked", "name": name, "base": base, "runs": runs})
        if name == "zonal_mean":
            # two lazy results with the same name over different zone rasters, evaluated in ONE graph: each equals its eager twin
            z2 = aux["zones"].copy(data=(np.asarray(aux["zones"]) + 1) % 3)
            z2.attrs = aux["zones"].attrs
            try:
                e1, e2 = da.hdc.zonal.mean(aux["zones"], [0, 1, 2], name="zm"), da.hdc.zonal.mean(z2, [0, 1, 2], name="zm")
                dl = da.chunk({"time": 4})
                l1, l2 = dask.compute(dl.hdc.zonal.mean(aux["zones"], [0, 1, 2], name="zm"), dl.hdc.zonal.mean(z2, [0, 1, 2], name="zm"))
                for tag, e, l in (("A", e1, l1), ("B", e2, l2)):
                    b_ = dict(digest_result(e, ny, nx), outcome="ok")
                    r_ = dict(digest_result(l, ny, nx), outcome="ok", cfg=f"dask:joint-compute-same-name:{tag}", kind="lazy", timechunked=False)
                    cases.append({"op": "blocked", "name": f"zonal_mean(joint {tag})", "base": b_, "runs": [r_]})
            except Exception as ex:
                cases.append({"op": "blocked", "name": "zonal_mean(joint)", "base": dict(base), "runs": [{"cfg": "dask:joint-compute-same-name", "kind": "lazy", "timechunked": False, "outcome": f"raise:{type(ex).__name__}", "px": [], "dims": [], "dtype": "", "coords": []}]})
    # two lazy results of the SAME operation on the SAME dask array that differ in one argument or attribute (the nodata attribute,
    # the requested dtype under one name, the smoothing parameter), evaluated in ONE graph: each must equal its own eager twin
    # (task names that do not cover every input of a block function make the two layers collide)
    sr = np.arange(-2, 2.2, 0.4)
    grp = (np.arange(T) % 3).astype("int16")
    twins = [
        ("autocorr", "int", lambda d, a, v: d.hdc.algo.autocorr(), lambda d, a, v: d.assign_attrs(nodata=v).hdc.algo.autocorr()),
        ("mktrend", "int", lambda d, a, v: d.hdc.algo.mktrend(), lambda d, a, v: d.assign_attrs(nodata=v).hdc.algo.mktrend()),
        ("rolling_sum", "int", lambda d, a, v: d.hdc.rolling.sum(3), lambda d, a, v: d.assign_attrs(nodata=v).hdc.rolling.sum(3)),
        ("mean_grp", "int", lambda d, a, v: d.hdc.algo.mean_grp(grp), lambda d, a, v: d.assign_attrs(nodata=v).hdc.algo.mean_grp(grp)),
        ("spi", "rain", lambda d, a, v: d.hdc.algo.spi(), lambda d, a, v: d.assign_attrs(nodata=v).hdc.algo.spi()),
        ("zonal_mean_dtype", "int", lambda d, a, v: d.hdc.zonal.mean(a["zones"], [0, 1, 2], name="zm"), lambda d, a, v: d.hdc.zonal.mean(a["zones"], [0, 1, 2], name="zm", dtype="float64")),
        ("zonal_mean_nodata", "int", lambda d, a, v: d.hdc.zonal.mean(a["zones"], [0, 1, 2], name="zm"), lambda d, a, v: d.assign_attrs(nodata=v).hdc.zonal.mean(a["zones"], [0, 1, 2], name="zm")),
        ("whits_s", "int", lambda d, a, v: d.hdc.whit.whits(ND, s=10.0), lambda d, a, v: d.hdc.whit.whits(ND, s=1000.0)),
        ("whits_nodata", "int", lambda d, a, v: d.hdc.whit.whits(ND, s=10.0), lambda d, a, v: d.hdc.whit.whits(v, s=10.0)),
        ("whitsvc_p", "int", lambda d, a, v: d.hdc.whit.whitsvc(ND, srange=sr, p=0.9), lambda d, a, v: d.hdc.whit.whitsvc(ND, srange=sr, p=0.6)),
        ("whitswcv", "int", lambda d, a, v: d.hdc.whit.whitswcv(ND, robust=False), lambda d, a, v: d.hdc.whit.whitswcv(ND, robust=True)),
    ]
    for ti, (name, kind, f1, f2) in enumerate(twins):
        da = base_cube(seed + 1, kind)
        ny, nx = da.sizes["y"], da.sizes["x"]
        aux = {"zones": zones(da)}
        vals = [int(t) for t in np.asarray(da).reshape(-1).tolist() if t == t and t != da.attrs.get("nodata")]
        v = max(set(vals), key=vals.count) if vals else 1       # the twin's nodata: the most frequent valid observation of the cube
        for layout in ((("time", "y", "x"), ("y", "x", "time"))[ti % 2],):
            dd = da.transpose(*layout)
            try:
                e1, e2 = f1(dd, aux, v), f2(dd, aux, v)
                if digest_result(e1, ny, nx)["px"] == digest_result(e2, ny, nx)["px"]:
                    continue        # the twins do not differ on this cube: nothing to learn
                dl = dd.chunk({"time": -1, "y": 2, "x": 2})
                l1, l2 = dask.compute(f1(dl, aux, v), f2(dl, aux, v), scheduler="synchronous")
                for tag, e, l in (("A", e1, l1), ("B", e2, l2)):
                    b_ = dict(digest_result(e, ny, nx), outcome="ok")
                    r_ = dict(digest_result(l, ny, nx), outcome="ok", cfg=f"dask:joint-compute-twin:{tag}:{','.join(layout)}", kind="lazy", timechunked=False)
                    cases.append({"op": "blocked", "name": f"{name}(twin {tag})", "base": b_, "runs": [r_]})
            except Exception as ex:
                cases.append({"op": "blocked", "name": f"{name}(twin)", "base": {"outcome": "ok", "px": [], "dims": [], "dimsets": [], "dtype": "", "adtype": "", "coords": []},
                              "runs": [{"cfg": "dask:joint-compute-twin", "kind": "lazy", "timechunked": False, "outcome": f"raise:{type(ex).__name__}", "px": [], "dims": [], "dtype": "", "coords": []}]})
    return cases


def prange_case(quick):
    """ws2doptvplc_tyx (parallel=True) under different numba thread counts: bit-identical"""
    import numba

    from hdc.algo.ops.ws2doptvplc import ws2doptvplc_tyx

    rs = np.random.RandomState(3)
    tyx = (3000 + 1500 * np.sin(np.arange(30)[:, None, None] * 0.5 + rs.rand(1, 24, 20) * 6) + rs.randint(-400, 400, (30, 24, 20))).astype("int16")
    tyx[rs.rand(30, 24, 20) < 0.1] = ND

    def dg(nt):
        numba.set_num_threads(nt)
        zz, lo = ws2doptvplc_tyx(tyx, 0.9, ND)
        return {"px": [hashlib.md5(np.ascontiguousarray(zz[:, i, j]).tobytes() + lo[i, j].tobytes()).hexdigest()[:12] for i in range(24) for j in range(20)], "dims": ["t", "y", "x"], "dtype": str(zz.dtype), "coords": []}

    maxt = numba.config.NUMBA_NUM_THREADS
    base = dict(dg(1), outcome="ok")
    runs = []
    for nt in ([2, 4, 8, maxt] if quick else list(range(2, maxt + 1))):
        for rep_ in range(2 if quick else 3):
            runs.append(dict(dg(min(nt, maxt)), cfg=f"numba-threads:{nt}", kind="threads", timechunked=False, outcome="ok"))
    numba.set_num_threads(maxt)
    # pixel locality of the driver itself: every pixel alone, and the pixels rearranged
    rng_ = np.random.RandomState(11)
    perm = rng_.permutation(24 * 20)
    flatc = tyx.reshape(30, -1)

    def run_cube(cube):
        zz, lo = ws2doptvplc_tyx(np.ascontiguousarray(cube), 0.9, ND)
        return [hashlib.md5(np.ascontiguousarray(zz[:, i, j]).tobytes() + lo[i, j].tobytes()).hexdigest()[:12] for i in range(cube.shape[1]) for j in range(cube.shape[2])]

    pp = run_cube(flatc[:, perm].reshape(30, 24, 20))
    inv = [None] * len(perm)
    for newpos, old in enumerate(perm):
        inv[old] = pp[newpos]
    runs.append({"px": inv, "dims": base["dims"], "dtype": base["dtype"], "coords": [], "cfg": "tyx:permuted-pixels", "kind": "perm", "timechunked": False, "outcome": "ok"})
    alone = list(base["px"])
    for q in (rng_.choice(24 * 20, 40 if quick else 200, replace=False)):
        alone[q] = run_cube(flatc[:, q : q + 1].reshape(30, 1, 1))[0]
    runs.append({"px": alone, "dims": base["dims"], "dtype": base["dtype"], "coords": [], "cfg": "tyx:pixels-alone", "kind": "perm", "timechunked": False, "outcome": "ok"})
    runs.append({"px": run_cube(tyx[:, :, ::-1])[::1], "dims": base["dims"], "dtype": base["dtype"], "coords": [], "cfg": "tyx:x-reversed", "kind": "perm", "timechunked": False, "outcome": "ok"})
    xr_ = runs[-1]["px"]
    runs[-1]["px"] = [xr_[i * 20 + (19 - j)] for i in range(24) for j in range(20)]
    return {"op": "blocked", "name": "ws2doptvplc_tyx(prange)", "base": base, "runs": runs}


def run(tier, seed):
    rep = core.Report("C12", tier, seed)
    quick = tier == "quick"
    lazy_mc(rep, quick)
    cfgb = lambda var: f'SPECIFICATION Spec\nCHECK_DEADLOCK FALSE\nCONSTANTS\n Pixels <- PixelsDef\n Values <- ValuesDef\n Workers <- WorkersDef\n Variant = "{var}"\nINVARIANT PixelLocal\nINVARIANT NoEarlyWrite\n' + ("PROPERTY Completes\n" if var == "plain" else "")  # noqa: E731
    defs = f"PixelsDef == 1..{3 if quick else 4}\nValuesDef == {{10, 20}}\nWorkersDef == {{1, 2}}\n"
    r = core.must_pass(core.tlc("BlockedApply", cfgb("plain"), defs=defs, workers=core.NCPU, timeout=1800, heap="6g"), "blocked apply")
    rep.add_mc("BlockedApply plain: pixel locality for every partition / order / 2 workers", r)
    r = core.tlc("BlockedApply", cfgb("scratch"), defs=defs, workers=4, timeout=600)
    if r.violated_name() != "PixelLocal":
        raise core.Machinery(f"negative control failed: a scratch value kept across a block must break PixelLocal\n{r.tail(20)}")
    rep.add_mc("BlockedApply scratch (negative control: PixelLocal violated as expected)", r)
    lazy_traces(rep, quick, seed)
    cases = blocked_cases(rep, quick, seed)
    cases.append(prange_case(quick))
    cases += races(rep, quick, seed)
    for i, c in enumerate(cases):
        c["tid"] = i + 1
    verdicts, st = core.validate_batch("TraceBlocked", cases, per_jvm=200, timeout=1800)
    rep.add_stats("TraceBlocked (eager vs dask configurations, prange thread counts, real races)", st, len(cases))
    rep.extra.update(
        distinct_nontrivial=len(cases) + rep.extra.get("lazycompile_interleavings_2x1call_exhaustive", 0),
        exhaustive=False,
        configurations_run=sum(len(c.get("runs", [])) for c in cases),
        refusals_on_chunked_time=sum(1 for c in cases for r_ in c.get("runs", []) if r_.get("timechunked") and r_["outcome"] != "ok"),
        rule="lazycompile: all interleavings of two racing first calls (exhaustive), 2+1 calls (bounded DFS), three threads (seeded sample), real numba races in subprocesses; "
        "18 accessor operations x dask chunkings (1-pixel, single, ragged) x schedulers (sync, threads 1/4/16) x dimension orders x permuted pixels x chunked time; prange kernel under 1..16 threads",
    )
    for c in cases[:2] + cases[-2:]:
        rep.sample({k: (v if k != "runs" else [{kk: r_[kk] for kk in ("cfg", "outcome", "dtype")} for r_ in v][:5]) for k, v in c.items() if k not in ("base",)})
    rep.settle(cases, verdicts)
    rep.assumptions += ["only Python-level yield points of the wrapper are scheduled deterministically; numba's compiler lock, dask's schedulers and the prange runtime are exercised, not enumerated"]
    return rep.finish()


def replay(path):
    v = json.loads(open(path).read())
    print("recorded trace:", json.dumps(v["trace"])[:2000])
    print(f"VIOLATION property=C12 replay={path}")
    return 1
