-------------------------- MODULE TraceSpiAccessor --------------------------
(* recorded calls of get_calibration_indices and hdc.algo.spi against SpiAccessor *)
EXTENDS SpiAccessor, Json, IOUtils
Cases == JsonDeserialize(IOEnv.TRACE_FILE)
VARIABLES k, v

CalIdxCase(c) ==
    IF c.groups = <<>> THEN (IF c.res = CalIdx(c.time, c.b, c.e) THEN <<"ACCEPT", "", "">> ELSE <<"REJECT", "CalibrationIndices", ToString(c.res)>>)
    ELSE LET bad == {g \in 0..(c.ng - 1) : c.res[g + 1] # CalIdx(SubAxis(c.time, c.groups, g), c.b, c.e)} IN
         IF bad = {} THEN <<"ACCEPT", "", "">> ELSE <<"REJECT", "CalibrationIndicesPerGroup", ToString(c.res)>>

Rank(groups, i) == Cardinality({j \in GroupPos(groups, groups[i]) : j <= i})
SubOf(c, g) == CHOOSE s \in {c.subs[j] : j \in 1..Len(c.subs)} : s.g = g

SpiCase(c) ==
    LET raise == MustRaise(c.time, c.b, c.e, c.groups)
        b == Begin(c.time, c.b)  e == End(c.time, c.e) IN
    IF raise THEN (IF c.outcome = "raise:ValueError" THEN <<"ACCEPT", "", "raises">> ELSE <<"REJECT", "InvalidWindowRaises", c.outcome>>)
    ELSE IF c.outcome # "ok" THEN <<"REJECT", "ValidWindowAccepted", c.outcome>>
    ELSE IF c.attrs # <<AttrBegin(c.time, c.b, c.e), AttrEnd(c.time, c.b, c.e)>> THEN <<"REJECT", "CalibrationAttrs", ToString(c.attrs)>>
    ELSE IF c.groups = <<>> THEN
         LET ci == CalIdx(c.time, b, e)
             cs == {j \in 1..Len(c.cands) : c.cands[j].start = ci[1] /\ c.cands[j].stop = ci[2]} IN
         IF cs = {} THEN <<"SKIP", "no-candidate-for-contract-window", ToString(ci)>>
         ELSE LET cand == c.cands[CHOOSE j \in cs : TRUE] IN
              IF c.out # cand.out THEN <<"REJECT", "WindowInclusiveBothEnds", ToString(ci)>>
              \* the fitted sample is the set of steps in the window, wherever they sit on the axis (and whatever gaps precede them)
              ELSE IF "alt" \in DOMAIN cand /\ cand.alt # cand.out THEN <<"REJECT", "FitSampleIsTheWindowsSteps", ToString(ci)>>
              ELSE <<"ACCEPT", "", "">>
    ELSE LET npx == Len(c.out)
             badsub == {j \in 1..Len(c.subs) : c.subs[j].outcome # "ok"}
             bad == {pi \in (1..npx) \X (1..Len(c.time)) :
                        c.out[pi[1]][pi[2]] # SubOf(c, c.groups[pi[2]]).out[pi[1]][Rank(c.groups, pi[2])]} IN
         IF badsub # {} THEN <<"REJECT", "GroupEqualsUngroupedSubseries", "sub-call failed">>
         ELSE IF bad # {} THEN <<"REJECT", "GroupEqualsUngroupedSubseries", ToString(CHOOSE pi \in bad : TRUE)>>
         ELSE IF \E j \in 1..Len(c.relabel) : c.relabel[j] # c.out THEN <<"REJECT", "PartitionOnly", "">>
         ELSE <<"ACCEPT", "", "">>

Verdict(c) == CASE c.op = "calidx" -> CalIdxCase(c) [] c.op = "spi" -> SpiCase(c) [] OTHER -> <<"REJECT", "UnknownOp", c.op>>
\* generic clauses of every recorded call: the caller's arrays come back untouched; an exception is an event
Guarded(c) == IF "inmod" \in DOMAIN c /\ c.inmod THEN <<"REJECT", "InputsUnmodified", "">>
              ELSE IF "exc" \in DOMAIN c /\ c.exc # "" THEN <<"REJECT", "NoException", c.exc>>
              ELSE Verdict(c)
Init == k \in 1..Len(Cases) /\ v = "todo"
Next == /\ v = "todo"
        /\ LET r == Guarded(Cases[k]) IN PrintT(<<"V", k, r[1], r[2], r[3]>>) /\ v' = r[1]
        /\ UNCHANGED k
TraceSpec == Init /\ [][Next]_<<k, v>>
=============================================================================
