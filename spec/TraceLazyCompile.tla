--------------------------- MODULE TraceLazyCompile ---------------------------
(***************************************************************************)
(* Executions of the real lazycompile wrapper under a deterministic        *)
(* scheduler (one event per critical point, logged with the value of the   *)
(* closure cell after the step) validated against LazyCompile.             *)
(* Event: [t |-> thread, a |-> action name, cell |-> 0 | kernel number,    *)
(*         val |-> value loaded / produced / result].                      *)
(* Contract events decide the verdict (a call of a non-kernel, an          *)
(* exception, a wrong result, a cell holding something that is not a       *)
(* finished kernel); a mismatch in the ORDER of critical points while the  *)
(* contract holds is reported as drift (SKIP-class verdict "DRIFT").       *)
(***************************************************************************)
EXTENDS LazyCompile, Json, IOUtils, TLC

Traces == JsonDeserialize(IOEnv.TRACE_FILE)
VARIABLES k, l, v
tvars == <<vars, k, l, v>>
Tr == Traces[k]
Ev == Tr.events[l]

TInit == /\ k \in 1..Len(Traces) /\ l = 1 /\ v = "run"
         /\ cell = None /\ compiles = 0
         /\ pc = [t \in Thread |-> "idle"] /\ tmp = [t \in Thread |-> None]
         /\ left = [t \in Thread |-> 9] /\ results = [t \in Thread |-> <<>>]

Finish(kind, clause) == /\ PrintT(<<"V", k, kind, clause, ToString(l)>>)
                        /\ v' = kind /\ UNCHANGED <<vars, k, l>>

\* contract violations visible in a single event, whatever the order of steps
EventBad ==
    CASE Ev.a = "exception" -> "NoException"
      [] Ev.a = "invoke" /\ Ev.val # "F" -> "ResultIsF"
      [] Ev.a = "invoke" /\ Ev.callee = 0 -> "CallsOnlyKernels"
      [] Ev.cell < 0 -> "CellIsKernelOrNone"          \* harness encodes a non-kernel, non-None cell as -1
      [] OTHER -> "ok"

Act(t) == CASE Ev.a = "enter" -> Enter(t) [] Ev.a = "check" -> Check(t) [] Ev.a = "compile" -> Compile(t)
            [] Ev.a = "publish" -> Publish(t) [] Ev.a = "fetch" -> Fetch(t) [] Ev.a = "invoke" -> Invoke(t)
            [] OTHER -> FALSE

Consume ==
    /\ v = "run" /\ l <= Len(Tr.events)
    /\ IF EventBad # "ok" THEN Finish("REJECT", EventBad)
       ELSE IF ENABLED Act(Ev.t)
            THEN /\ Act(Ev.t) /\ cell' = Ev.cell /\ l' = l + 1 /\ UNCHANGED <<k, v>>
            ELSE Finish("SKIP", "DRIFT-order-of-critical-points")
Accept == /\ v = "run" /\ l = Len(Tr.events) + 1
          /\ IF ResultsAreF /\ CellIsKernelOrNone THEN Finish("ACCEPT", "") ELSE Finish("REJECT", "ResultIsF")
TraceNext == Consume \/ Accept
TraceSpec == TInit /\ [][TraceNext]_tvars
StepInv == CellIsKernelOrNone /\ CallsOnlyKernels
=============================================================================
