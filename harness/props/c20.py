"""C20 - temporal interpolation averages the daily Whittaker curve per period.

(A) MCTinterp: the kernel's cursor loops = declarative scatter / period means, cursors in bounds.
(B) ops.tinterpolate and hdc.whit.whitint: TLC solves the daily curve exactly (lambda = float 1e-5,
    weight on marks only), checks it against the normal equations, averages per label run and
    checks the rounded output; constant / linear-in-day data up to daily length ~4000 by certificate.
"""
from __future__ import annotations

import datetime as dt
import json
import random

import numpy as np

from .. import core

MODULE = "TraceTinterp"


def execute(c):
    import xarray as xr
    from hdc.algo import ops

    x = np.array(c["xi"], dtype="int16")
    # the template is a 0/1 mask: callers hold it as float64, as bool or as a small integer type
    tmpl = np.array(c["tmpl"], dtype=["float64", "bool", "uint8", "int64", "float32"][c.get("tid", 0) % 5])
    labels = np.array(c["labels"], dtype="int32")
    t0, l0 = tmpl.copy(), labels.copy()
    wx = core.Watch(x)
    nout = len(np.unique(labels))
    c["exc"] = ""
    try:
        out = _call(c, xr, ops, x, tmpl, labels, nout)
    except Exception as ex:        # the error path is an event too
        c["exc"] = type(ex).__name__
        out = np.zeros(nout, dtype="int16")
    c["out"] = [int(v) for v in np.asarray(out).tolist()]
    c["tmpl_after"] = [int(v) for v in tmpl.tolist()]
    c["labels_after"] = [int(v) for v in labels.tolist()]
    if not (np.array_equal(t0, tmpl) and np.array_equal(l0, labels)):
        c["labels_after"] = c["labels_after"] + [-1]
    c["inmod"] = wx.changed()
    c["x"] = [str(int(v)) for v in c["xi"]]
    return c


def _call(c, xr, ops, x, tmpl, labels, nout):
    if c["api"] == "kernel":
        return ops.tinterpolate(x, tmpl, labels, np.zeros(nout, dtype="u1"))
    else:
        dims = c.get("dims", ["time", "y", "x"])
        shape = [1, 1, 1]
        shape[dims.index("time")] = len(x)
        da = xr.DataArray(x.reshape(shape), dims=dims)
        if c.get("dask"):
            da = da.chunk({d: 1 for d in dims if d != "time"})
        r = da.hdc.whit.whitint(labels, tmpl)
        out = np.asarray(r.transpose(..., "newtime")).reshape(-1)
        if str(r.dtype) != "int16":
            out = np.array([-31000] * len(out))
        return out


def calendar(rng, ndays, kind):
    """daily labels from the real calendar: dekads, pentads (6 per month), months"""
    start = dt.date(rng.randint(1990, 2030), rng.randint(1, 12), rng.choice([1, 1, 11, 21, 6]))
    if kind in ("dekad_of_year", "month_of_year"):      # start late in the year so that the labels wrap; at most ~300 days so no label repeats
        start = dt.date(rng.randint(1990, 2030), rng.choice([10, 11, 12]), rng.choice([1, 11, 21]))
    labs = []
    for i in range(ndays):
        d = start + dt.timedelta(days=i)
        if kind == "dekad_of_year":      # 1..36, wrapping at new year: distinct and contiguous, but not increasing
            labs.append((d.month - 1) * 3 + min(2, (d.day - 1) // 10) + 1)
            continue
        if kind == "month_of_year":
            labs.append(d.month)
            continue
        if kind == "dekad":
            labs.append(d.year * 36 + (d.month - 1) * 3 + min(2, (d.day - 1) // 10))
        elif kind == "pentad":
            labs.append(d.year * 72 + (d.month - 1) * 6 + min(5, (d.day - 1) // 5))
        else:
            labs.append(d.year * 12 + d.month - 1)
    if kind in ("dekad_of_year", "month_of_year"):
        return labs
    base = labs[0]
    return [v - base + 1 for v in labs]


def marks(rng, nobs, spacing):
    """positions (0-based day offsets) of the observations"""
    pos = [0]
    for _ in range(nobs - 1):
        step = spacing if spacing else rng.choice([1, 3, 5, 8, 10, 16, 23])
        pos.append(pos[-1] + step)
    return pos


def gen_cases(tier, seed):
    rng = random.Random(seed * 69621 + 20)
    quick = tier == "quick"
    cases = []

    def add(c):
        c["tid"] = len(cases) + 1
        cases.append(c)

    def build(nobs, spacing, kind, lead, trail):
        pos = marks(rng, nobs, spacing)
        ndays = pos[-1] + 1 + lead + trail
        tmpl = [0] * ndays
        for q in pos:
            tmpl[q + lead] = 1
        return tmpl, calendar(rng, ndays, kind)

    # general data, exact solve
    for _ in range(60 if quick else 250):
        nobs = rng.randint(5, 12 if quick else 40)
        spacing = rng.choice([5, 8, 10, 16, 0])
        while True:
            tmpl, labels = build(nobs, spacing, rng.choice(["dekad", "pentad", "month", "dekad_of_year", "month_of_year"]), rng.choice([0, 0, 2, 7]), rng.choice([0, 0, 3, 9]))
            if len(tmpl) <= (100 if quick else 250):
                break
            nobs = max(5, nobs - 3)
        kind = rng.choice(["noise", "smooth", "zeros", "small"])
        if kind == "noise":
            xi = [rng.randint(-10000, 10000) for _ in range(nobs)]
        elif kind == "smooth":
            xi = [int(4000 + 3000 * np.sin(i * 0.5)) for i in range(nobs)]
        elif kind == "zeros":     # exact zeros among the observations (a natural value for rainfall / indices)
            xi = [0 if rng.random() < 0.35 else rng.randint(-500, 500) for _ in range(nobs)]
        else:
            xi = [rng.choice([-1, 0, 1, 2, 255, -32768, 32767][:5]) for _ in range(nobs)]
        api = rng.choice(["kernel", "kernel", "accessor"])
        add({"op": "general", "api": api, "xi": xi, "tmpl": tmpl, "labels": labels, "dims": rng.choice([["time", "y", "x"], ["y", "x", "time"]]), "dask": rng.random() < 0.15})
    # constant and linear-in-day data, long templates
    for _ in range(80 if quick else 600):
        nobs = rng.randint(5, 60 if quick else 400)
        spacing = rng.choice([5, 8, 10, 16, 0])
        tmpl, labels = build(nobs, spacing, rng.choice(["dekad", "pentad", "month", "dekad_of_year"]), rng.choice([0, 0, 4]), rng.choice([0, 0, 6]))
        if len(tmpl) > 4000 or len(set(labels)) != 1 + sum(1 for a, b in zip(labels, labels[1:]) if a != b):
            continue       # each label value must form one contiguous run (the kernel's contract)
        days = [j + 1 for j, m in enumerate(tmpl) if m]
        if rng.random() < 0.4:
            a, b = rng.randint(-10000, 10000), 0
        else:
            b = rng.choice([-3, -2, -1, 1, 2, 3])
            span = abs(b) * len(tmpl)
            a = rng.randint(-10000 + span, 10000 - span) if span < 9000 else None
            if a is None:
                b = rng.choice([-1, 1])
                span = len(tmpl)
                if span > 9000:
                    continue
                a = rng.randint(-10000 + span, 10000 - span)
        xi = [a + b * d for d in days]
        if max(abs(v) for v in xi) > 10000:
            continue
        add({"op": "linear", "api": rng.choice(["kernel", "accessor"]), "xi": xi, "tmpl": tmpl, "labels": labels, "a": str(a), "b": str(b)})
    return cases


def describe(c):
    return {"op": c["op"], "api": c["api"], "nobs": len(c["xi"]), "ndays": len(c["tmpl"]), "periods": len(set(c["labels"])), "x_head": c["xi"][:6], "out_head": c.get("out", [])[:6], "a": c.get("a"), "b": c.get("b")}


def run(tier, seed):
    rep = core.Report("C20", tier, seed)
    quick = tier == "quick"
    cfg = f"SPECIFICATION Spec\nCHECK_DEADLOCK FALSE\nCONSTANT MaxLen = {7 if quick else 8}\nINVARIANT Holds\n"
    r = core.must_pass(core.tlc("MCTinterp", cfg, workers=core.NCPU, timeout=3000, heap="6g"), "tinterp loops")
    rep.add_mc("MCTinterp (scatter loop, run-length loop, cursor bounds)", r)
    cases = [execute(c) for c in gen_cases(tier, seed)]
    verdicts, st = core.validate_batch(MODULE, cases, per_jvm=40, timeout=6000, heap="4g")
    rep.add_stats("TraceTinterp", st, len(cases))
    rep.extra.update(
        distinct_nontrivial=len({json.dumps([c["xi"], c["tmpl"], c["labels"]]) for c in cases}),
        exhaustive=False,
        rule="general int16 data with exact daily solve (daily length <= 100 quick / 250 thorough), regular 5/8/10/16-day and irregular marks, "
        "dekad/pentad/month labels from the real calendar, leading/trailing unmarked days; constant and linear-in-day data up to daily length 4000 by certificate",
        max_daily_len=max(len(c["tmpl"]) for c in cases),
    )
    for c in cases[:2] + cases[-2:]:
        rep.sample(describe(c))
    rep.settle(cases, verdicts)
    return rep.finish()


def replay(path):
    v = json.loads(open(path).read())
    t = v["trace"]
    c = execute({k: t[k] for k in ("op", "api", "xi", "tmpl", "labels", "a", "b", "dims", "dask") if k in t})
    c["tid"] = 1
    verdicts, _ = core.validate_batch(MODULE, [c], jobs=1)
    print("replayed", describe(c), "->", verdicts[1])
    if verdicts[1][0] == "REJECT":
        print(f"VIOLATION property=C20 replay={path}")
        return 1
    return 0
