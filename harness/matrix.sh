#!/bin/sh
# regression matrix: every kept seeded change against the current quick check of its property,
# each in its own scratch worktree of /repo (never /repo itself); usage: matrix.sh <name>...
for name in "$@"; do
  prop=$(echo $name | cut -c1-3)
  wt=/tmp/wt/mx-$name
  git -C /repo worktree remove --force $wt >/dev/null 2>&1
  git -C /repo worktree add -q --detach $wt HEAD || { echo "$name worktree-failed"; continue; }
  if git -C $wt apply /verif/seeded/$name/patch.diff 2>/dev/null; then
    (cd /verif && VERIF_REPO=$wt VERIF_EVIDENCE_DIR=/verif/build/matrix/ev-$name ./check $prop --tier quick > /verif/build/matrix/$name.log 2>&1; echo "$name rc=$?")
  else
    echo "$name patch-does-not-apply"
  fi
  git -C /repo worktree remove --force $wt >/dev/null 2>&1
  rm -rf /verif/build/matrix/ev-$name
done
