--------------------------- MODULE AccessorSession ---------------------------
(***************************************************************************)
(* One array object and the accessor object xarray caches on it            *)
(* (`arr.hdc` is built once per array, together with its sub-accessors).   *)
(* The array's state can change IN PLACE between calls: the `nodata`       *)
(* attribute is set, replaced or deleted, the time axis is relabelled.     *)
(* The contract: what a call uses is a function of the array's state AT    *)
(* THE CALL and of the call's arguments - never of an earlier call or of   *)
(* the state at the accessor's first touch.                                *)
(*                                                                         *)
(* Where the nodata value of an operation comes from (accessors.py):       *)
(*   "arg-or-attr"   argument if given, else attribute, else ValueError    *)
(*   "attr-required" attribute, else ValueError   (no argument exists)     *)
(*   "attr-optional" attribute if present, else no masking at all          *)
(*   "arg-only"      the (mandatory) argument; the attribute is ignored    *)
(* `croo` uses the current order of the time labels.                       *)
(*                                                                         *)
(* Variant "live" is the code as it is (the accessor keeps a reference to  *)
(* the array and reads it at every call); variant "memo" freezes what it   *)
(* saw at first touch - the negative control, and the shape of two seeded  *)
(* changes (C17-d, C18-d).                                                 *)
(***************************************************************************)
EXTENDS Integers, Sequences, FiniteSets, TLC
CONSTANTS
    \* @type: Set(Str);
    NDVals,
    \* @type: Int;
    MaxCalls,
    \* @type: Str;
    Variant

None == "none"
Source(op) ==
    CASE op \in {"rolling_sum", "mean_grp", "spi"} -> "arg-or-attr"
      [] op = "zonal_mean"                          -> "attr-required"
      [] op \in {"autocorr", "mktrend"}             -> "attr-optional"
      [] op \in {"whits", "whitsvc", "whitswcv"}    -> "arg-only"
      [] OTHER                                      -> "no-nodata"
Ops == {"rolling_sum", "mean_grp", "spi", "zonal_mean", "autocorr", "mktrend", "whits", "croo"}
HasArg(op) == Source(op) \in {"arg-or-attr", "arg-only"}

\* what a call observes, given the state it should be reading
Effective(op, arg, attr, order) ==
    IF op = "croo" THEN order
    ELSE IF op = "spi" /\ order = "desc" THEN "ValueError"      \* spi refuses an axis that is not ascending (window checks)
    ELSE CASE Source(op) = "arg-or-attr"   -> IF arg # None THEN arg ELSE IF attr # None THEN attr ELSE "ValueError"
           [] Source(op) = "attr-required" -> IF attr # None THEN attr ELSE "ValueError"
           [] Source(op) = "attr-optional" -> attr                      \* None = no masking
           [] Source(op) = "arg-only"      -> arg
           [] OTHER                        -> None

VARIABLES
    \* @type: Str;
    attr,
    \* @type: Str;
    order,
    \* @type: { set: Bool, attr: Str, order: Str };
    memo,
    \* @type: { op: Str, arg: Str, attr: Str, order: Str, obs: Str };
    last,
    \* @type: Int;
    ncalls
vars == <<attr, order, memo, last, ncalls>>
Init == /\ attr \in NDVals \cup {None}
        /\ order \in {"asc", "desc"}
        /\ memo = [set |-> FALSE, attr |-> None, order |-> "asc"]                 \* nothing touched yet
        /\ last = [op |-> None, arg |-> None, attr |-> None, order |-> "asc", obs |-> None]
        /\ ncalls = 0

SetAttr(v) == attr' = v /\ v # attr /\ UNCHANGED <<order, memo, last, ncalls>>
Relabel == order' = (IF order = "asc" THEN "desc" ELSE "asc") /\ UNCHANGED <<attr, memo, last, ncalls>>

Call(op, arg) ==
    /\ ncalls < MaxCalls
    /\ (arg # None => HasArg(op)) /\ (Source(op) = "arg-only" => arg # None)
    /\ LET m == IF ~memo.set THEN [set |-> TRUE, attr |-> attr, order |-> order] ELSE memo      \* first touch freezes (memo variant)
           seenattr == IF Variant = "memo" THEN m.attr ELSE attr
           seenorder == IF Variant = "memo" THEN m.order ELSE order
       IN /\ memo' = m
          /\ last' = [op |-> op, arg |-> arg, attr |-> attr, order |-> order, obs |-> Effective(op, arg, seenattr, seenorder)]
    /\ ncalls' = ncalls + 1
    /\ UNCHANGED <<attr, order>>

Next == \/ \E v \in NDVals \cup {None} : SetAttr(v)
        \/ Relabel
        \/ \E op \in Ops, arg \in NDVals \cup {None} : Call(op, arg)
Spec == Init /\ [][Next]_vars

\* every call observes what the array's present state and the arguments imply
HistoryFree == last.op # None => last.obs = Effective(last.op, last.arg, last.attr, last.order)
\* an explicit argument always wins; a call never fails when a nodata value is available to it
ArgWins == last.op # None /\ last.arg # None /\ last.op # "croo" /\ ~(last.op = "spi" /\ last.order = "desc") => last.obs = last.arg
NoSpuriousError == last.op # None /\ last.obs = "ValueError" => (last.arg = None /\ last.attr = None) \/ (last.op = "spi" /\ last.order = "desc")

(* ---- unbounded sessions (Apalache): HistoryFree is inductive ------------------------------------------- *)
(* apalache-mc check --cinit=ConstInit --init=IndInit --inv=IndInv --length=1 : IndInv /\ Next => IndInv'     *)
(* apalache-mc check --cinit=ConstInit --inv=IndInv --length=0                 : Init => IndInv               *)
ConstInit == NDVals = {"7", "-1"} /\ MaxCalls = 1000000000 /\ Variant = "live"
ConstInitMemo == NDVals = {"7", "-1"} /\ MaxCalls = 1000000000 /\ Variant = "memo"      \* negative control
Vals == NDVals \cup {None}
Orders == {"asc", "desc"}
TypeOK == /\ attr \in Vals /\ order \in Orders
          /\ memo \in [set : BOOLEAN, attr : Vals, order : Orders]
          /\ last \in [op : Ops \cup {None}, arg : Vals, attr : Vals, order : Orders, obs : Vals \cup Orders \cup {"ValueError"}]
          /\ ncalls \in 0..MaxCalls
IndInv == TypeOK /\ HistoryFree /\ ArgWins /\ NoSpuriousError
IndInit == IndInv
=============================================================================
