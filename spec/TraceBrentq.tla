----------------------------- MODULE TraceBrentq -----------------------------
(***************************************************************************)
(* The Python source of brentq executed with a line tracer: the locals at  *)
(* the top of every loop iteration are logged (floats as exact rationals). *)
(* Each logged state must be the Brentq!Step image of its predecessor      *)
(* (the function value at the new abscissa is taken from the log), the     *)
(* root must stay bracketed, and the returned value must be the current    *)
(* abscissa of a converged state (or the 100th iterate).                   *)
(***************************************************************************)
EXTENDS Brentq, Json, IOUtils
Traces == JsonDeserialize(IOEnv.TRACE_FILE)
VARIABLES k, l, v
T == Traces[k]
Near(a, b) == RLe(RAbs(RSub(a, b)), RMul("1/1000000000", RMax(RMax(RAbs(a), RAbs(b)), "1/1000000000000")))
SameState(a, b) == /\ Near(a.xpre, b.xpre) /\ Near(a.xcur, b.xcur) /\ Near(a.xblk, b.xblk)
                   /\ Near(a.fpre, b.fpre) /\ Near(a.fblk, b.fblk) /\ Near(a.spre, b.spre) /\ Near(a.scur, b.scur)
\* a decision of the step sits on a floating-point tie (then either branch is fine)
TieInStep(st) ==
    LET p == Prep(st)  dl == Delta(p) IN
    \/ Near(RAbs(p.fblk), RAbs(p.fcur)) \/ Near(RAbs(p.fcur), RAbs(p.fpre)) \/ Near(RAbs(p.spre), dl)
    \/ Near(RAbs(st.fblk), RAbs(st.fcur))
Init == k \in 1..Len(Traces) /\ l = 1 /\ v = "run"
Finish(kind, clause) == PrintT(<<"V", k, kind, clause, ToString(l)>>) /\ v' = kind /\ UNCHANGED <<k, l>>
Step1 ==
    /\ v = "run" /\ l < Len(T.states)
    /\ LET a == T.states[l]  b == T.states[l + 1] IN
       IF l > 1 /\ ~Bracketed(Prep(a)) THEN Finish("REJECT", "RootStaysBracketed")
       ELSE IF Converged(Prep(a)) THEN Finish("REJECT", "StopsWhenConverged")
       ELSE IF SameState(Step(a, b.fcur), b) THEN l' = l + 1 /\ UNCHANGED <<k, v>>
       ELSE IF TieInStep(a) THEN Finish("SKIP", "floating-point-tie-in-a-branch-decision")
       ELSE Finish("REJECT", "StepFollowsBrent")
Last ==
    /\ v = "run" /\ l = Len(T.states)
    /\ LET a == Prep(T.states[l]) IN
       IF T.result = "0" /\ Len(T.states) = 1 THEN Finish("ACCEPT", "no-sign-change")
       ELSE IF Converged(a) THEN
            (IF Near(T.result, a.xcur) THEN Finish("ACCEPT", "") ELSE Finish("REJECT", "ReturnsCurrentAbscissa"))
       ELSE IF Len(T.states) >= MAXITER THEN Finish("SKIP", "iteration-limit-reached")
       ELSE Finish("REJECT", "StopsOnlyWhenConverged")
TraceNext == Step1 \/ Last
TraceSpec == Init /\ [][TraceNext]_<<k, l, v>>
=============================================================================
