"""X07 (extra) - the accessor-level tables agree with each other.

spec/Pipeline.tla composes one accessor call from the four tables that were written and bound to the code
separately (Accessors!Expected - X01, HdcAlgo!KernelsOf - X03, AccessorOutputs!Expected - X05, AccessorSession!Source -
X06) and states the laws that must hold ACROSS them: an accepted call has a row in the output table and only accepted
calls return anything; the nodata source of the session model and the error rules of the argument table tell the same
story; time-reducing operations return no time dimension, per-pixel series operations keep it last; the dtype families;
a rejected call compiles nothing.  TLC checks every operation x fact vector x layout x laziness; a negative control
(zonal.mean accepting a nodata argument) must be refuted.  No traces of its own: each table is bound by its own check.
"""
from __future__ import annotations

from .. import core


def run(tier, seed):
    rep = core.Report("X07", tier, seed)
    r = core.must_pass(core.tlc("MCPipeline", "SPECIFICATION Spec\nCHECK_DEADLOCK FALSE\nINVARIANT Holds\n", workers=core.NCPU, timeout=1800), "pipeline laws")
    rep.add_mc("MCPipeline (OutputsDefined, NodataStory, TimeAxis, Dtypes, RejectedCompilesNothing over 12 operations x 4096 fact vectors x 3 layouts x laziness)", r)
    r = core.tlc("MCPipeline", "SPECIFICATION Spec\nCHECK_DEADLOCK FALSE\nINVARIANT ZonalArgWorks\n", workers=4, timeout=900)
    if r.violated_name() != "ZonalArgWorks":
        raise core.Machinery(f"negative control failed: zonal.mean has no nodata argument\n{r.tail(20)}")
    rep.add_mc("MCPipeline ZonalArgWorks (negative control: refuted as expected)", r)
    rep.extra.update(exhaustive=True, rule="cross-table consistency of Accessors / HdcAlgo / AccessorOutputs / AccessorSession; the tables themselves are bound to the code by X01, X03, X05, X06")
    rep.notes.append("specification-level check: no traces of its own")
    return rep.finish()


def replay(path):
    print("X07 has no traces to replay")
    return 0
