-------------------------- MODULE TraceMannKendall --------------------------
(* recorded results of the Mann-Kendall kernels / mktrend against MannKendall *)
EXTENDS MannKendall, Json, IOUtils

Batch == JsonDeserialize(IOEnv.TRACE_FILE)
Cases == Batch.cases
PT == Batch.common.ptable
VARIABLES k, v
IsNum(s) == s \notin {"nan", "inf", "-inf"}

\* c: x (rationals), tau, p, slope (rationals or nan), trend (int); f32: outputs are float32
One(x, tau, p, slope, trend, f32) ==
    LET z2 == ZSqFast(x)
        br == PBracket(PT, z2)
        sig == Significant(z2)
        slack(want) == IF f32 THEN Ulp32(want) ELSE RMul(RAbs(want), "1/1000000000000")
        near(got, want) == IsNum(got) /\ RLe(RAbs(RSub(got, want)), RAdd(slack(want), "1/1000000000000000000000000000000"))
    IN  IF ~near(tau, TauFast(x)) THEN <<"REJECT", "TauA", "">>
        ELSE IF ~near(slope, SenSlopeSorted(x)) THEN <<"REJECT", "SenSlope", "">>
        ELSE IF ~(IsNum(p) /\ RLe(RSub(RMul(br[1], "999999/1000000"), "1/1000000000000"), p)
                           /\ RLe(p, RAdd(RMul(br[2], "1000001/1000000"), "1/1000000000000"))) THEN <<"REJECT", "PValue", "">>
        ELSE IF sig = "undecided" THEN <<"SKIP", "z-inside-quantile-bracket", "">>
        ELSE IF trend # (IF sig = "yes" THEN ZSignFast(x) ELSE 0) THEN <<"REJECT", "TrendFlag", "">>
        ELSE <<"ACCEPT", "", "">>

AllNodata(c) == \* every cell equals nodata: the nd wrapper must return (nodata, nodata, nodata, -2)
    IF c.tau = c.nd /\ c.p = c.nd /\ c.slope = c.nd /\ c.trend = -2 THEN <<"ACCEPT", "", "all-nodata">>
    ELSE <<"REJECT", "AllNodataRule", "">>

\* linked pair: y is a strictly increasing transform / negation / reversal / scaling of x
Pair(c) ==
    LET a == One(c.x, c.tau, c.p, c.slope, c.trend, c.f32) IN
    IF a[1] # "ACCEPT" THEN a
    ELSE CASE c.rel = "mono" -> IF c.tau2 = c.tau /\ c.p2 = c.p /\ c.trend2 = c.trend THEN a ELSE <<"REJECT", "MonotoneInvariance", "">>
           [] c.rel \in {"neg", "rev"} ->
                IF c.tau2 = RNeg(c.tau) /\ c.p2 = c.p /\ c.trend2 = -c.trend /\ c.slope2 = RNeg(c.slope) THEN a
                ELSE <<"REJECT", "SignFlip", c.rel>>
           [] OTHER -> a

Bulk(c) ==    \* c.xs: a list of rank patterns (integers), outputs in the same order
    LET total == Len(c.xs)
        X(ix) == [j \in 1..Len(c.xs[ix]) |-> RInt(c.xs[ix][j])]
        R(ix) == One(X(ix), c.tau[ix], c.p[ix], c.slope[ix], c.trend[ix], c.f32)
        bad == {ix \in 1..total : R(ix)[1] = "REJECT"}
    IN  IF Len(c.tau) # total THEN <<"REJECT", "BulkLength", "">>
        ELSE IF bad = {} THEN <<"ACCEPT", "", ToString(total)>>
        ELSE LET ix == CHOOSE ix \in bad : \A o \in bad : ix <= o IN <<"REJECT", R(ix)[2], ToString(c.xs[ix])>>

Verdict(c) ==
    CASE c.op = "one" -> One(c.x, c.tau, c.p, c.slope, c.trend, c.f32)
      [] c.op = "pair" -> Pair(c)
      [] c.op = "allnodata" -> AllNodata(c)
      [] c.op = "bulk" -> Bulk(c)
      [] OTHER -> <<"REJECT", "UnknownOp", c.op>>

\* generic clauses of every recorded call: the caller's arrays come back untouched; an exception is an event
Guarded(c) == IF "inmod" \in DOMAIN c /\ c.inmod THEN <<"REJECT", "InputsUnmodified", "">>
              ELSE IF "exc" \in DOMAIN c /\ c.exc # "" THEN <<"REJECT", "NoException", c.exc>>
              ELSE Verdict(c)
Init == k \in 1..Len(Cases) /\ v = "todo"
Next == /\ v = "todo"
        /\ LET r == Guarded(Cases[k]) IN PrintT(<<"V", k, r[1], r[2], r[3]>>) /\ v' = r[1]
        /\ UNCHANGED k
TraceSpec == Init /\ [][Next]_<<k, v>>
=============================================================================
