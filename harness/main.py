"""Entry point of every check: dispatch to harness/props/<id>.py."""
import argparse
import importlib
import os
import sys
import traceback

from . import core


def main():
    ap = argparse.ArgumentParser()
    ap.add_argument("prop")
    ap.add_argument("--tier", default=os.environ.get("VERIF_TIER", "quick"), choices=["quick", "thorough"])
    ap.add_argument("--replay")
    a = ap.parse_args()
    seed = int(os.environ.get("VERIF_SEED", "0") or 0)
    try:
        core.assert_repo()
        core.ensure_built()
        mod = importlib.import_module(f"harness.props.{a.prop.lower()}")
        if a.replay:
            rc = mod.replay(a.replay)
        else:
            rc = mod.run(a.tier, seed)
    except core.Machinery as e:
        print(f"MACHINERY-FAILURE property={a.prop}: {e}")
        sys.exit(2)
    except Exception:
        traceback.print_exc()
        print(f"MACHINERY-FAILURE property={a.prop}: unexpected exception")
        sys.exit(2)
    sys.exit(rc)


if __name__ == "__main__":
    main()
