"""C19 - iterative aggregation yields exactly the complete trailing windows.

(A) MCIterAgg: the generator machine (label lookup incl. get_indexer = -1, loop, break)
    against the declarative window contract for every axis length / n / begin / end /
    method of the property's scope; negative control: the pinned variant (no check of -1).
(B) hdc.iteragg.sum/mean/full on the same scope: one event per next() (yield with attrs,
    stamp and values | end | raise), validated step by step by TraceIterAgg.
"""
from __future__ import annotations

import json
import random

import numpy as np

from .. import core

MODULE = "TraceIterAgg"
METHODS = ["exact", "ffill", "bfill", "nearest"]
CFG = 'SPECIFICATION TraceSpec\nCHECK_DEADLOCK FALSE\nCONSTANT Variant = "raise"\nINVARIANT StepInvariant\n'


def mc_cfg(maxlen, variant, live=False):
    s = f'SPECIFICATION MCSpec\nCHECK_DEADLOCK FALSE\nCONSTANTS\n MaxLen = {maxlen}\n Variant = "{variant}"\nINVARIANT SliceOK\nINVARIANT ContractOK\nINVARIANT WindowsAgree\n'
    return s


def _stamp(t):
    import pandas as pd

    return pd.Timestamp("2000-01-01") + pd.Timedelta(days=int(t))


def execute(c):
    """run the real generator, one event per next()"""
    import pandas as pd
    import xarray as xr

    call = c["call"]
    axis = call["axis"]
    N = len(axis)
    # the cube's floating type in turn (NaN-skipping is not a float64 privilege); the mean comes back in that type
    call.setdefault("dtype", ["float64", "float32"][(c.get("tid", 0) // 2) % 2])
    call["mtol"] = {"float64": "1/1125899906842624", "float32": "1/4194304"}[call["dtype"]]
    data = np.array([[np.nan if s == "nan" else float(s) for s in px] for px in call["data"]], dtype=call["dtype"])
    npx = data.shape[0]
    timedim = call["dim"] == "time"
    if timedim:
        coords = {"time": [_stamp(t) for t in axis]}
        da = xr.DataArray(data.T.reshape(N, npx, 1), dims=("time", "y", "x"), coords=coords)
        if call.get("dask"):
            da = da.chunk({"y": 1})
        lab = (lambda t: str(_stamp(t))) if call.get("strlabels") else _stamp
        back = {str(_stamp(t)): t for t in axis}
    else:
        da = xr.DataArray(data.reshape(npx, 1, N), dims=("y", "x", "band"), coords={"band": list(axis)})
        lab = lambda t: t  # noqa: E731
        back = {str(t): t for t in axis}
    kw = {"n": call["n"], "dim": call["dim"]}
    if call["b"] != -1:
        kw["begin"] = lab(call["b"])
    if call["e"] != -1:
        kw["end"] = lab(call["e"])
    if call["method"] != "exact":
        kw["method"] = call["method"]
    events = []
    if c.get("tid", 0) % 2 == 0:
        # history of the same object (xarray keeps one accessor object per array): the same labels looked up before
        # with every other method, and with begin / end exchanged, must leave no trace in this call
        for m in [None, "nearest", "ffill", "bfill"]:
            if m == kw.get("method"):
                continue
            for swap in (False, True):
                kw2 = {k: v for k, v in kw.items() if k != "method"}
                if swap:
                    b_, e_ = kw2.pop("begin", None), kw2.pop("end", None)
                    if b_ is not None:
                        kw2["end"] = b_
                    if e_ is not None:
                        kw2["begin"] = e_
                if m:
                    kw2["method"] = m
                try:
                    for _r in getattr(da.hdc.iteragg, call["func"])(**kw2):
                        break
                except Exception:
                    pass
        c["primed"] = True
    try:
        gen = getattr(da.hdc.iteragg, call["func"])(**kw)
        for cnt, r in enumerate(gen):
            if cnt > N + 2:
                events.append({"ev": "raise", "exc": "RunawayGenerator"})
                break
            ev = {
                "ev": "yield",
                "start": back.get(r.attrs.get("agg_start"), -7),
                "stop": back.get(r.attrs.get("agg_stop"), -7),
                "aggn": int(r.attrs.get("agg_n", -7)),
            }
            if call["func"] == "full":
                dimn = call["dim"]
                ev["stamp"] = back.get(str(r[dimn].values[-1]) if not timedim else str(pd.Timestamp(r[dimn].values[-1])), -7) if r[dimn].size else -7
                arr = np.asarray(r.transpose("y", "x", dimn)).reshape(npx, -1)
                ev["vals"] = [[core.rat(x) for x in row] for row in arr.tolist()]
            else:
                if timedim:
                    ev["stamp"] = back.get(str(pd.Timestamp(r["time"].values[0])), -7) if r["time"].size == 1 else -7
                else:
                    ev["stamp"] = ev["stop"]  # no stamp exists for a reduced non-time dimension
                ev["vals"] = [core.rat(x) for x in np.asarray(r).reshape(-1).tolist()]
            events.append(ev)
        else:
            events.append({"ev": "end"})
    except Exception as ex:  # the error path is an event too
        events.append({"ev": "raise", "exc": type(ex).__name__})
    c["events"] = events
    return c


def mk(axis, n, b, e, method, func, rng, dim="time", npx=2, strlabels=False):
    N = len(axis)
    data = [[("nan" if rng.random() < 0.25 else str(rng.randint(-20, 20))) for _ in range(N)] for _ in range(npx)]
    return {"call": {"axis": axis, "n": n, "b": b, "e": e, "method": method, "func": func, "dim": dim, "data": data, "strlabels": strlabels, "dask": rng.random() < 0.1}}


def gen_cases(tier, seed):
    rng = random.Random(seed * 15485863 + 19)
    quick = tier == "quick"
    cases = []

    def add(c):
        c["tid"] = len(cases) + 1
        cases.append(c)

    full_to = 4 if quick else 7
    top = 12
    for N in range(1, top + 1):
        axis = [10 * i for i in range(1, N + 1)]
        labels = [-1] + [5 * j for j in range(1, 2 * N + 2)]
        # the same axis shifted so that the label 0 (and negative labels) lies on it: non-time dimension only
        off = 10 * rng.randint(1, N)
        for n, b, e, m in rng.sample([(n, b, e, m) for n in range(1, N + 2) for b in labels for e in labels for m in METHODS], 12 if quick else 80):
            sh = lambda v: v if v == -1 else v - off  # noqa: E731
            if -1 in (sh(b), sh(e)) and (b != -1 and sh(b) == -1 or e != -1 and sh(e) == -1):
                continue
            add(mk([a - off for a in axis], n, sh(b), sh(e), m, rng.choice(["sum", "mean", "full"]), rng, dim="band"))
        combos = [(n, b, e, m) for n in range(1, N + 2) for b in labels for e in labels for m in METHODS]
        if N > full_to:
            combos = rng.sample(combos, 250 if quick else 2500)
        for n, b, e, m in combos:
            add(mk(axis, n, b, e, m, rng.choice(["sum", "mean", "full"]), rng, dim=rng.choice(["time", "time", "band"]), strlabels=rng.random() < 0.2))
    # irregular axes, all-NaN windows, n = None equivalent (n = N)
    for _ in range(150 if quick else 2000):
        N = rng.randint(1, 12)
        axis = sorted(rng.sample(range(1, 120), N))
        lab = lambda: rng.choice([-1, rng.choice(axis), rng.randint(0, 125)])  # noqa: E731
        add(mk(axis, rng.randint(1, N + 1), lab(), lab(), rng.choice(METHODS), rng.choice(["sum", "mean", "full"]), rng, dim=rng.choice(["time", "band"]), npx=rng.randint(1, 3)))
    return cases


def describe(c):
    d = {"call": {k: v for k, v in c["call"].items() if k != "data"}, "events": [e if e["ev"] != "yield" else {k: e[k] for k in ("ev", "start", "stop", "aggn")} for e in c.get("events", [])][:6]}
    return d


def run(tier, seed):
    rep = core.Report("C19", tier, seed)
    quick = tier == "quick"
    r = core.must_pass(core.tlc("MCIterAgg", mc_cfg(8 if quick else 12, "raise"), workers=core.NCPU, coverage=True, timeout=3000, heap="8g"), "iteragg scope")
    cov = r.coverage()
    for act in ("LookupBegin", "LookupEnd", "Exhausted", "Break", "Skip", "Yield"):
        if not cov.get(f"IterAgg!{act}"):
            raise core.Machinery(f"vacuous model check: {act} never taken: {cov}")
    rep.add_mc("MCIterAgg raise-variant (SliceOK, ContractOK, WindowsAgree)", r, coverage=cov)
    r = core.tlc("MCIterAgg", mc_cfg(3, "pinned"), workers=4, timeout=600)
    if r.violated_name() != "ContractOK":
        raise core.Machinery(f"negative control failed: pinned variant must violate ContractOK\n{r.tail(20)}")
    rep.add_mc("MCIterAgg pinned-variant (negative control: ContractOK violated as expected)", r)
    cases = [execute(c) for c in gen_cases(tier, seed)]
    verdicts, st = core.validate_batch(MODULE, cases, cfg=CFG, per_jvm=4000, timeout=3000)
    rep.add_stats("TraceIterAgg", st, len(cases))
    rep.extra.update(
        distinct_nontrivial=len({json.dumps(c["call"], sort_keys=True) for c in cases if len(c["events"]) > 1 or c["events"][0]["ev"] == "raise"}),
        exhaustive=False,
        rule="every (n, begin, end, method) for axis lengths up to 4 (quick) / 7 (thorough) and a seeded sample for lengths up to 12, "
        "plus irregular axes; non-trivial = at least one yield or a raise; distinct = distinct calls",
        events=sum(len(c["events"]) for c in cases),
    )
    for c in cases[:2] + cases[len(cases) // 2 : len(cases) // 2 + 2] + cases[-2:]:
        rep.sample(describe(c))
    rep.settle(cases, verdicts)
    rep.assumptions += ["axis labels are mapped to integers by the harness (10-day steps / integer band coordinate)", "cube values are small integers or NaN so that float64 sums are exact"]
    return rep.finish()


def replay(path):
    v = json.loads(open(path).read())
    c = execute({"call": v["trace"]["call"]})
    c["tid"] = 1
    verdicts, _ = core.validate_batch(MODULE, [c], cfg=CFG, jobs=1)
    print("replayed", describe(c), "->", verdicts[1])
    if verdicts[1][0] == "REJECT":
        print(f"VIOLATION property=C19 replay={path}")
        return 1
    return 0
