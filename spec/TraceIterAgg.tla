---------------------------- MODULE TraceIterAgg ----------------------------
(***************************************************************************)
(* Trace validation for hdc.iteragg.sum/mean/full.  A trace is one call    *)
(* followed by one event per next() on the real generator:                 *)
(*   yield(agg_start, agg_stop, agg_n, stamp, vals) | end | raise(exc).    *)
(* The generator machine of IterAgg takes its silent steps (label lookup,  *)
(* skipped positions) between events; every logged field is compared with  *)
(* the machine's state, the values with the NaN-skipping sum / mean / the  *)
(* untouched slice of the recorded cube (exact rationals).                 *)
(***************************************************************************)
EXTENDS IterAgg, BigRat, Json, IOUtils, TLC

Traces == JsonDeserialize(IOEnv.TRACE_FILE)
VARIABLES k, l, v
tvars == <<vars, k, l, v>>

T == Traces[k]
Ev == T.events[l]

AtYield == pc = "loop" /\ ii > 0 /\ ii > endIx /\ ii - n >= 0
AtStop  == pc = "loop" /\ (ii <= 0 \/ ii <= endIx)

----------------------------------------------------------------------------
(* values *)
IsNaN(s) == s = "nan"
Cells(p, jj, hi) == [j \in 1..(hi - jj + 1) |-> T.call.data[p][jj + j]]     \* 0-based jj..hi
NonNaN(c) == SelectSeq(c, LAMBDA s : ~IsNaN(s))
MeanTol(m) == RMul(RAbs(m), T.call.mtol)     \* relative: 2^-50 for float64 cubes, 2^-22 for float32 cubes (the mean is returned in the cube's type)
ValOK(func, p, jj, hi, got) ==
    LET c == Cells(p, jj, hi)  nn == NonNaN(c) IN
    CASE func = "sum"  -> ~IsNaN(got) /\ got = RSum(nn)
      [] func = "mean" -> IF nn = <<>> THEN IsNaN(got)
                          ELSE ~IsNaN(got) /\ LET m == RDiv(RSum(nn), RInt(Len(nn))) IN RWithin(got, m, MeanTol(m))
      [] func = "full" -> got = c
ValsOK(jj, hi) == \A p \in 1..Len(T.call.data) : ValOK(T.call.func, p, jj, hi, Ev.vals[p])

\* the logged fields of a yield event against the machine's next window
YieldClause ==
    LET jj == ii - n  hi == ii - 1 IN
    IF Ev.start # axis[jj + 1] THEN "AggStart"
    ELSE IF Ev.stop # axis[hi + 1] THEN "AggStop"
    ELSE IF Ev.aggn # n THEN "AggN"
    ELSE IF Ev.stamp # axis[hi + 1] THEN "TimeStamp"
    ELSE IF ~ValsOK(jj, hi) THEN "WindowValue"
    ELSE "ok"

----------------------------------------------------------------------------
Init == /\ k \in 1..Len(Traces) /\ l = 1 /\ v = "run"
        /\ Start(Traces[k].call.axis, Traces[k].call.n, Traces[k].call.b, Traces[k].call.e, Traces[k].call.method)

Silent == v = "run" /\ (LookupBegin \/ LookupEnd \/ Skip) /\ UNCHANGED <<k, l, v>>

Finish(kind, clause) ==
    /\ PrintT(<<"V", k, kind, clause, ToString(l)>>)
    /\ v' = kind /\ UNCHANGED <<vars, k, l>>

Consume ==
    /\ v = "run" /\ l <= Len(T.events)
    /\ IF AtYield THEN
          IF Ev.ev = "yield"
          THEN LET c == YieldClause IN
               IF c = "ok" THEN Yield /\ l' = l + 1 /\ UNCHANGED <<k, v>>
               ELSE Finish("REJECT", c)
          ELSE Finish("REJECT", IF Ev.ev = "end" THEN "MissingWindow" ELSE "UnexpectedRaise")
       ELSE IF AtStop THEN
          IF Ev.ev = "end" /\ l = Len(T.events)
          THEN (Exhausted \/ Break) /\ l' = l + 1 /\ UNCHANGED <<k, v>>
          ELSE Finish("REJECT", IF Ev.ev = "yield" THEN "UnexpectedWindow" ELSE "UnexpectedRaise")
       ELSE IF pc = "raised" THEN
          IF Ev.ev = "raise" /\ Ev.exc = "ValueError" /\ l = Len(T.events)
          THEN l' = l + 1 /\ UNCHANGED <<vars, k, v>>
          ELSE Finish("REJECT", "MissingValueError")
       ELSE FALSE

Accept == /\ v = "run" /\ l = Len(T.events) + 1 /\ pc \in {"done", "raised"}
          /\ IF ContractOK THEN Finish("ACCEPT", "") ELSE Finish("REJECT", "ContractOK")

\* a trace that stops early (fewer events than the machine needs) is rejected too
Truncated == /\ v = "run" /\ l = Len(T.events) + 1 /\ pc \notin {"done", "raised"} /\ ~ENABLED Silent
             /\ Finish("REJECT", "TraceTruncated")

TraceNext == Silent \/ Consume \/ Accept \/ Truncated
TraceSpec == Init /\ [][TraceNext]_tvars
StepInvariant == SliceOK
=============================================================================
