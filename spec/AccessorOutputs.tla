--------------------------- MODULE AccessorOutputs ---------------------------
(***************************************************************************)
(* The shape of what the accessors return (hdc/algo/accessors.py): for     *)
(* every accepted call the variables of the result, their dimensions (in   *)
(* order), extents, dtype, name and attribute keys as a function of the    *)
(* operation and of the same facts about the input.  Values are decided by *)
(* the kernel modules; this module is the plumbing around them.            *)
(*                                                                         *)
(* The input is a record                                                   *)
(*   dims, sizes (aligned sequences), dtype, name ("none" = unnamed),      *)
(*   attrs (set of keys), nodata (string), lazy (BOOLEAN),                  *)
(*   w (window), nper (periods of whitint), nz, dimname, zname, outdtype.   *)
(* The result is a sequence of variables (one for a DataArray, several,    *)
(* ordered by name, for a Dataset).                                        *)
(*                                                                         *)
(* Deviations of the code from the obvious contract are modelled as they   *)
(* are and named:                                                          *)
(*  AutocorrTimeFirstDropsMeta - autocorr on a time-first cube takes the   *)
(*     map_blocks route and returns an unnamed (lazy: dask token) array    *)
(*     without attributes; every other layout keeps name and attributes.  *)
(*  IterAggTimeFirst - iteragg yields slices with time moved first.        *)
(***************************************************************************)
EXTENDS Integers, Sequences, FiniteSets, TLC

Without(s, d) == SelectSeq(s, LAMBDA e : e # d)
Pos(s, d) == CHOOSE i \in 1..Len(s) : s[i] = d
SizeOf(in, d) == in.sizes[Pos(in.dims, d)]
CoreLast(in) == Without(in.dims, "time") \o <<"time">>     \* apply_ufunc moves the core dimension last
Pixel(in) == Without(in.dims, "time")
Sizes(in, dims, tlen) == [i \in 1..Len(dims) |-> IF dims[i] = "time" THEN tlen ELSE SizeOf(in, dims[i])]

V(var, dims, sizes, dtype, name, attrs, nodata) ==
    [var |-> var, dims |-> dims, sizes |-> sizes, dtype |-> dtype, name |-> name, attrs |-> attrs, nodata |-> nodata]

T(in) == SizeOf(in, "time")
IsInt(dt) == dt \in {"int8", "int16", "int32", "int64", "uint8"}

Series(in, dtype, tlen, attrs) == V("", CoreLast(in), Sizes(in, CoreLast(in), tlen), dtype, in.name, attrs, in.nodata)
Map(in, var, dtype, name, attrs, nodata) == V(var, Pixel(in), Sizes(in, Pixel(in), 0), dtype, name, attrs, nodata)

BandName(in) == IF in.name = "none" THEN "band" ELSE in.name
WithSgrid(in) ==     \* variables ordered by name
    LET band == [Series(in, "int16", T(in), in.attrs) EXCEPT !.var = BandName(in), !.name = BandName(in)]
        sg == Map(in, "sgrid", "float32", "sgrid", in.attrs, in.nodata)
    IN <<band, sg>>

Expected(op, in) ==
    CASE op \in {"whits_s", "whits_sg", "whits_sgp"} -> <<Series(in, "int16", T(in), in.attrs)>>
      [] op \in {"whitsvc", "whitsvc_p", "whitsvc_lc", "whitswcv", "whitswcv_p"} -> WithSgrid(in)
      [] op = "whitint" ->
            LET d == Pixel(in) \o <<"newtime">> IN
            <<V("", d, [i \in 1..Len(d) |-> IF d[i] = "newtime" THEN in.nper ELSE SizeOf(in, d[i])], "int16", in.name, in.attrs, in.nodata)>>
      [] op \in {"spi", "spi_grp"} -> <<Series(in, "int16", T(in), in.attrs \cup {"spi_calibration_begin", "spi_calibration_end"})>>
      [] op = "lroo" -> <<Map(in, "", "uint32", in.name, in.attrs, in.nodata)>>
      [] op = "croo" -> <<Map(in, "", "int64", in.name, in.attrs, in.nodata)>>
      [] op = "autocorr" ->
            IF in.dims[1] = "time"      \* AutocorrTimeFirstDropsMeta
            THEN <<Map(in, "", "float32", IF in.lazy THEN "token" ELSE "none", {}, "none")>>
            ELSE <<Map(in, "", "float32", in.name, in.attrs, in.nodata)>>
      [] op = "mktrend" ->
            <<Map(in, "pvalue", "float32", "pvalue", in.attrs, in.nodata), Map(in, "slope", "float32", "slope", in.attrs, in.nodata),
              Map(in, "tau", "float32", "tau", in.attrs, in.nodata), Map(in, "trend", "int8", "trend", in.attrs, "-2")>>
      [] op = "mean_grp" -> <<Series(in, "float32", T(in), in.attrs)>>
      [] op = "rolling_sum" -> <<Series(in, "float32", T(in) - in.w + 1, in.attrs)>>
      [] op = "zonal_mean" ->
            <<V("", <<"time", in.dimname, "stat">>, <<T(in), in.nz, 2>>, in.outdtype,
                IF in.zname # "none" THEN in.zname ELSE IF in.lazy THEN "token" ELSE "none", in.attrs, in.nodata)>>
      [] op \in {"anom_ratio", "anom_diff"} ->
            <<V("", in.dims, in.sizes, IF in.dtype = "float32" THEN "float32" ELSE "float64", in.name, in.attrs, in.nodata)>>
      [] op \in {"iteragg_sum", "iteragg_mean"} ->
            LET d == <<"time">> \o Pixel(in)     \* IterAggTimeFirst
                dt == IF IsInt(in.dtype) THEN (IF op = "iteragg_sum" THEN "int64" ELSE "float64") ELSE in.dtype
            IN <<V("", d, Sizes(in, d, 1), dt, in.name, in.attrs \cup {"agg_start", "agg_stop", "agg_n"}, in.nodata)>>
      [] OTHER -> <<>>

Ops == {"whits_s", "whits_sg", "whits_sgp", "whitsvc", "whitsvc_p", "whitsvc_lc", "whitswcv", "whitswcv_p", "whitint", "spi", "spi_grp",
        "lroo", "croo", "autocorr", "mktrend", "mean_grp", "rolling_sum", "zonal_mean", "anom_ratio", "anom_diff", "iteragg_sum", "iteragg_mean"}

(* ---- laws of the table (checked by MCAccessorOutputs over all layouts) ---- *)
NoDupDims(vs) == \A i \in 1..Len(vs) : \A a, b \in 1..Len(vs[i].dims) : vs[i].dims[a] = vs[i].dims[b] => a = b
Aligned(vs) == \A i \in 1..Len(vs) : Len(vs[i].dims) = Len(vs[i].sizes)
\* the layout of the input changes neither the set of dimensions, nor extents, nor dtype of any variable
SameUpToOrder(a, b) ==
    /\ Len(a) = Len(b)
    /\ \A i \in 1..Len(a) :
          /\ a[i].var = b[i].var /\ a[i].dtype = b[i].dtype
          /\ {<<a[i].dims[j], a[i].sizes[j]>> : j \in 1..Len(a[i].dims)} = {<<b[i].dims[j], b[i].sizes[j]>> : j \in 1..Len(b[i].dims)}
\* laziness changes nothing but (possibly) the name
SameButName(a, b) == Len(a) = Len(b) /\ \A i \in 1..Len(a) : [a[i] EXCEPT !.name = ""] = [b[i] EXCEPT !.name = ""]
\* per-pixel operations keep the pixel dimensions in the order of the input
PixelOrderKept(in, vs) == \A i \in 1..Len(vs) : SelectSeq(vs[i].dims, LAMBDA d : d \in {"y", "x"}) \in {Pixel(in), <<>>}
=============================================================================
