"""C15 - lag-1 autocorrelation is a Pearson correlation with mean-filled gaps.

(A) MCAutocorr: all series of length 3..6/7 over {missing,0,1,2,5}: the kernels' running-sum
    formula = mean-filled Pearson (squared value and sign, exact), range, affine invariance;
    negative control: the pinned numerator (paired means) violates it.
(B) autocorr_1d (int/nodata and float/NaN), autocorr (y,x,t), autocorr_tyx (t,y,x), the accessor in
    both layouts on numpy and dask: one trace per series holding every API's result; TLC decides
    each against the exact rational correlation.
"""
from __future__ import annotations

import json
import random

import numpy as np

from .. import core

MODULE = "TraceAutocorr"
ND = -3000


def execute(c):
    import xarray as xr
    from hdc.algo.ops import autocorr, autocorr_1d, autocorr_tyx

    vals = c["vals"]  # ints or None
    ND = c.get("nd", -3000)
    xi = np.array([ND if v is None else v for v in vals], dtype="int16")
    xf = np.array([np.nan if v is None else float(v) for v in vals], dtype=c.get("fdtype", "float64"))
    rs, apis = [], []
    watch = core.Watch(xi, xf)

    excs = []

    def put(name, thunk):
        apis.append(name)
        try:
            r = thunk()
            rs.append(core.rat(np.asarray(r).reshape(-1)[0]))
            excs.append("")
        except Exception as ex:        # the error path is an event too
            rs.append("0")
            excs.append(type(ex).__name__)

    put("1d_int", lambda: autocorr_1d(xi, ND))
    put("1d_float", lambda: autocorr_1d(xf))
    put("yxt_int", lambda: autocorr(xi.reshape(1, 1, -1), ND))
    put("yxt_float", lambda: autocorr(xf.reshape(1, 1, -1)))
    put("tyx_int", lambda: autocorr_tyx(xi.reshape(-1, 1, 1), ND))
    put("tyx_float", lambda: autocorr_tyx(xf.reshape(-1, 1, 1)))
    if c.get("accessor"):
        for dims in (("time", "y", "x"), ("y", "x", "time")):
            shape = [1, 1, 1]
            shape[dims.index("time")] = len(xi)
            da = xr.DataArray(xi.reshape(shape), dims=dims, attrs={"nodata": ND})
            put("acc_" + dims[0], lambda: da.hdc.algo.autocorr())
            put("acc_dask_" + dims[0], lambda: da.chunk({"y": 1, "x": 1}).hdc.algo.autocorr().compute())
            if dims[0] == "time" and len(xi) > 4:
                put("acc_dask_timechunked", lambda: da.chunk({"time": 2}).hdc.algo.autocorr().compute())

            def joint(first, da=da):
                # the same dask array under ANOTHER nodata attribute (one of its valid observations) evaluated in the same graph:
                # each lazy result belongs to its own attribute, whichever of the two enters the graph first
                import dask

                dl = da.chunk({"y": 1, "x": 1})
                other = next((int(v) for v in vals if v is not None), 1)
                mine, twin = dl.hdc.algo.autocorr(), dl.assign_attrs(nodata=other).hdc.algo.autocorr()
                res = dask.compute(*((mine, twin) if first else (twin, mine)), scheduler="synchronous")
                return res[0 if first else 1]
            put("acc_dask_joint1_" + dims[0], lambda: joint(True))
            put("acc_dask_joint2_" + dims[0], lambda: joint(False))
        # cubes in which a spatial axis is as long as the time axis (ny == nt, nx == nt): the layout is a matter of
        # dimension NAMES; the series sits at one pixel among rolled copies of itself
        n = len(xi)
        if n <= 40:
            for dims, tag in ((("y", "x", "time"), "sq_yxt"), (("y", "time", "x"), "sq_ytx"), (("time", "y", "x"), "sq_tyx")):
                cube = np.stack([np.stack([np.roll(xi, i + 2 * j) if (i, j) != (n - 1, 1) else xi for j in range(2)]) for i in range(n)])   # (y = n, x = 2, time = n)
                dq = xr.DataArray(cube, dims=("y", "x", "time"), attrs={"nodata": ND}).transpose(*dims)
                put("acc_" + tag, lambda: dq.hdc.algo.autocorr().transpose("y", "x").values[n - 1, 1])
    c["data"] = ["nan" if v is None else str(v) for v in vals]
    c["rs"], c["apis"] = rs, apis
    c["exc"] = next((f"{a}:{e}" for a, e in zip(apis, excs) if e), "")
    c["inmod"] = watch.changed()
    c["f64"] = [a.startswith("1d_") for a in apis]   # autocorr_1d returns the unrounded float64
    return c


def gen_cases(tier, seed):
    rng = random.Random(seed * 31337 + 15)
    quick = tier == "quick"
    cases = []

    def add(vals, accessor=False):
        # the nodata value itself varies (0 is falsy, -1 / 255 sit next to data); valid cells never equal it
        used = {v for v in vals if v is not None}
        nd = next(x for x in rng.sample([-3000, 0, -1, 255, 32767], 5) if x not in used)
        cases.append({"tid": len(cases) + 1, "vals": vals, "accessor": accessor or rng.random() < 0.1, "nd": nd, "fdtype": "float32" if len(cases) % 3 == 1 else "float64"})

    # the MC scope on the real code: all series of length 3..5/6 over {missing,0,1,2,5}
    import itertools

    for n in range(3, (5 if quick else 6) + 1):
        for t in itertools.product([None, 0, 1, 2, 5], repeat=n):
            if quick and rng.random() < 0.5 and n == 5:
                continue
            add(list(t))
    for _ in range(150 if quick else 1500):
        n = rng.choice([3, 4, 5, 8, 12, 20, 40] + ([100, 300] if quick else [100, 300, 600, 900]))
        style = rng.choice(["ar", "noise", "season", "flat", "offset"])
        if style == "ar":
            v, x = [], 0.0
            for _ in range(n):
                x = 0.8 * x + rng.gauss(0, 300)
                v.append(int(2000 + x))
        elif style == "noise":
            v = [rng.randint(-2900, 10000) for _ in range(n)]
        elif style == "season":
            v = [int(4000 + 2500 * np.sin(t * 0.35) + rng.gauss(0, 200)) for t in range(n)]
        elif style == "offset":  # a few counts of amplitude on a large offset (std / |mean| down to 1e-5): the variance is small but real
            off = rng.choice([0, 1000, 30000, 32000, 32700, -30000, -32000, -32700])
            amp = rng.choice([1, 3, 6, 20])
            v, x = [], 0.0
            for _ in range(n):
                x = 0.7 * x + rng.gauss(0, 1)
                v.append(off + max(0, min(amp, int(round(amp / 2 + x * amp / 4)))))
        else:
            v = [rng.choice([100, 100, 100, 101]) for _ in range(n)]
        gap = rng.choice(["none", "random", "outage", "lead", "trail"])
        vals = list(v)
        if gap == "random":
            p = rng.choice([0.05, 0.3, 0.7])
            vals = [None if rng.random() < p else x for x in v]
        elif gap == "outage":
            L = int(n * rng.choice([0.2, 0.5, 0.9]))
            a = rng.randint(0, n - L)
            vals = [None if a <= i < a + L else x for i, x in enumerate(v)]
        elif gap == "lead":
            L = rng.randint(1, max(1, n // 2))
            vals = [None] * L + v[L:]
        elif gap == "trail":
            L = rng.randint(1, max(1, n // 2))
            vals = v[: n - L] + [None] * L
        add(vals, accessor=rng.random() < 0.25)
        if rng.random() < 0.3:  # positive affine map of the valid cells, kept inside int16
            a, b = rng.choice([(2, 100), (3, -500), (1, 7)])
            if all(x is None or abs(a * x + b) < 32000 for x in vals):
                add([None if x is None else a * x + b for x in vals])
    return cases


def describe(c):
    return {"n": len(c["vals"]), "missing": sum(v is None for v in c["vals"]), "head": c["vals"][:10], "results": dict(zip(c.get("apis", []), [float(core.unrat(r)) if r not in ("nan", "inf", "-inf") else r for r in c.get("rs", [])]))}


def run(tier, seed):
    rep = core.Report("C15", tier, seed)
    quick = tier == "quick"
    cfg = lambda n, var: f'SPECIFICATION Spec\nCHECK_DEADLOCK FALSE\nCONSTANTS\n MaxLen = {n}\n Variant = "{var}"\nINVARIANT Holds\n'  # noqa: E731
    r = core.must_pass(core.tlc("MCAutocorr", cfg(6 if quick else 7, "meanfilled"), workers=core.NCPU, timeout=6000, heap="6g"), "autocorr scope")
    rep.add_mc("MCAutocorr meanfilled (formula = mean-filled Pearson, range, affine invariance)", r)
    r = core.tlc("MCAutocorr", cfg(4, "pinned"), workers=4, timeout=600)
    if r.violated_name() != "Holds":
        raise core.Machinery(f"negative control failed: the pinned numerator must violate the contract\n{r.tail(20)}")
    rep.add_mc("MCAutocorr pinned numerator (negative control: violated as expected)", r)
    cases = [execute(c) for c in gen_cases(tier, seed)]
    verdicts, st = core.validate_batch(MODULE, cases, per_jvm=400, timeout=6000, heap="4g")
    rep.add_stats("TraceAutocorr", st, len(cases))
    rep.extra.update(
        distinct_nontrivial=len({json.dumps(c["vals"]) for c in cases if sum(v is not None for v in c["vals"]) >= 3}),
        exhaustive=False,
        api_results_checked=sum(len(c["rs"]) for c in cases),
        rule="all series of length 3..5 (quick, half of length 5) / 6 over {missing,0,1,2,5}; AR(1)/noise/seasonal/flat series n 3..300 (quick) / 900 with random gaps, "
        "outages up to 90%, leading/trailing gaps, positive affine copies; per series: 1d/yxt/tyx kernels in int+nodata and float+NaN encodings, accessor both layouts numpy+dask",
    )
    for c in cases[:1] + cases[-3:]:
        rep.sample(describe(c))
    rep.settle(cases, verdicts)
    return rep.finish()


def replay(path):
    v = json.loads(open(path).read())
    c = execute({"vals": v["trace"]["vals"], "accessor": v["trace"].get("accessor", False), "nd": v["trace"].get("nd", -3000), "tid": 1})
    verdicts, _ = core.validate_batch(MODULE, [c], jobs=1)
    print("replayed", describe(c), "->", verdicts[1])
    if verdicts[1][0] == "REJECT":
        print(f"VIOLATION property=C15 replay={path}")
        return 1
    return 0
