------------------------------ MODULE MCHdcAlgo ------------------------------
EXTENDS HdcAlgo
Ops == {"whits", "whitsvc", "whitswcv", "whitint", "spi", "croo", "lroo", "autocorr", "mktrend", "mean_grp", "rolling_sum", "zonal_mean"}
Base == [hastime |-> TRUE, sg |-> TRUE, s |-> FALSE, lc |-> FALSE, p |-> FALSE, srange |-> TRUE, int16 |-> TRUE, nodataarg |-> TRUE,
         nodataattr |-> TRUE, groups |-> FALSE, groupslen |-> TRUE, dataset |-> FALSE, zonesda |-> TRUE, zonesnodata |-> TRUE,
         dimexists |-> TRUE, nzero |-> FALSE, datetime |-> TRUE, timefirst |-> TRUE]
Flip(f, k) == [f EXCEPT ![k] = ~f[k]]
Variants == {Base} \cup {Flip(Base, k) : k \in {"hastime", "p", "lc", "groups", "nodataattr", "timefirst", "int16"}}
           \cup {Flip(Flip(Base, "lc"), "p")}
Next == \E op \in Ops : \E f \in Variants : Invoke(op, f)
Spec == HInit /\ [][Next]_hvars
\* under fairness of every individual call the whole kernel set gets compiled
FairSpec == Spec /\ \A op \in Ops : \A f \in Variants : WF_hvars(Invoke(op, f) /\ compiled' # compiled)
\* every lazily compiled kernel except the tyx driver (not reachable through an accessor) can be reached
AllReachable == <>(compiled = LazyKernels \ {"ws2doptvplc_tyx"})
=============================================================================
