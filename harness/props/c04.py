"""C04 - V-curve selection is optimal on the grid and self-consistent.

TLC computes, for every recorded call of ws2doptv / ws2doptvp / ws2doptvplc / whitsvc, the exact curve
at every grid value (PLS, or the expectile fixed point certified from the envelope pattern logged
from the kernel source), the V-curve ordinates, and decides: Midpoint, VMin (tie band 1e-6),
BandIsFixed (the band is the fixed-lambda smoother at the reported lambda), Sgrid32, GridByLc.
"""
from __future__ import annotations

import json
import random

import numpy as np

from .. import core, smooth_common as sc
from .c03 import gaps, series

MODULE = "TraceSmooth"


def gen_cases(tier, seed):
    rng = random.Random(seed * 92821 + 4)
    quick = tier == "quick"
    cases = []

    def add(c):
        c["tid"] = len(cases) + 1
        c["op"] = "vcurve"
        cases.append(c)

    sizes = [5, 6, 8, 10, 12, 16] if quick else [5, 6, 8, 12, 16, 24, 32, 48]
    for _ in range(70 if quick else 400):
        variant = rng.choice(["v", "vp", "vplc"])
        n = rng.choice(sizes)
        if variant != "v" and n > 32:
            n = 32
        nd = rng.choice([-3000, 0, 32767, 255])
        y = gaps(rng, series(rng, n, rng.choice(["noise", "season", "steps", "season"])), nd, rng.choice([0.0, 0.1, 0.3]))
        c = {"variant": variant, "y": [str(v) for v in y], "nd": str(nd), "api": rng.choice(["kernel", "kernel", "accessor"])}
        if variant != "vplc":
            ng = rng.randint(3, 8 if quick else 24) if rng.random() < 0.9 else rng.randint(3, 8 if quick else 40)
            if variant == "vp" and ng > 16:
                ng = 16
            start = rng.choice([-3.0, -2.0, -1.0, 0.0, rng.uniform(-3, 1)])
            step = rng.choice([0.2, 0.25, 0.5, 1.0, rng.uniform(0.05, 0.8)])
            if start + step * (ng - 1) > 5:
                step = (5 - start) / ng
            c["grid"] = [sc.fl(start + k * step) for k in range(ng)]
        else:
            c["lc"] = rng.choice(["nan", sc.fl(0.5), sc.fl(np.nextafter(0.5, 1)), sc.fl(np.nextafter(0.5, 0)), sc.fl(rng.uniform(-1, 1)), sc.fl(0.9), sc.fl(-0.3)])
        if variant != "v":
            c["p"] = sc.fl(rng.choice([0.1, 0.5, 0.9, 0.95, round(rng.uniform(0.05, 0.95), 2)]))
        if c["api"] == "accessor":
            c["dims"] = rng.choice([["time", "y", "x"], ["y", "x", "time"]])
            c["dask"] = rng.random() < 0.15
        add(c)
    # structured family: V-curves whose two lowest ordinates are within 3 % (not tied): selection is sensitive
    from .. import families
    fgrid = [-2.0 + 0.2 * k for k in range(31)]
    for _ in range(6 if quick else 60):
        ys = families.find(rng, "vnear", fgrid, n_choices=(5, 6, 8, 10))
        if ys is None:
            continue
        add({"variant": "v", "y": [str(v) for v in ys], "nd": "-3000", "api": "kernel", "grid": [sc.fl(g) for g in fgrid], "family": "vnear"})
    # the special envelope value p = 1/2 (both sides weigh alike; the asymmetric contract still applies) through the accessor
    for variant in ("vp", "vplc"):
        for _ in range(2 if quick else 10):
            n = rng.choice([8, 10, 12])
            y = gaps(rng, series(rng, n, "season"), -3000, 0.1)
            c = {"variant": variant, "y": [str(v) for v in y], "nd": "-3000", "api": "accessor", "p": sc.fl(0.5), "dims": ["time", "y", "x"]}
            if variant == "vp":
                c["grid"] = [sc.fl(-2.0 + 0.5 * k) for k in range(9)]
            else:
                c["lc"] = sc.fl(rng.choice([0.2, 0.8]))
            add(c)
    # ladders that start far below the usual range ("any start"): at lambda 1e-10 .. 1e-8 the fit term is tiny but far above rounding noise,
    # the V-curve minimum still lies where it lies
    for k in range(6 if quick else 30):
        variant = ["vp", "v", "vp"][k % 3]
        n = rng.choice([8, 10, 12])
        # smooth, moderate-amplitude series: the fit term stays below 1e-10 over several ladder entries (where an absolute floor
        # or tolerance on it would bite), yet far above rounding noise relative to the data
        amp, ph = rng.choice([100, 200, 300]), rng.uniform(0, 3)
        y = [int(round(rng.choice([400, 1000]) + amp * np.sin(t / 2.0 + ph) + rng.gauss(0, amp / 4.0))) for t in range(n)]
        if k % 2:
            y[rng.randrange(1, n - 1)] = -3000
        start, step = [(-10.0, 0.5), (-9.0, 0.5), (-10.0, 1.0)][k % 3]
        ng = {1.0: 13, 0.5: 24}[step]
        c = {"variant": variant, "y": [str(v) for v in y], "nd": "-3000", "api": ["kernel", "accessor"][k % 2], "grid": [sc.fl(start + j * step) for j in range(ng)], "family": "lowladder"}
        if variant == "vp":
            c["p"] = sc.fl(rng.choice([0.9, 0.8, 0.6]))
        if c["api"] == "accessor":
            c["dims"] = ["time", "y", "x"]
        add(c)
    # too few valid cells
    for nv in (0, 1):
        for variant in ("v", "vp", "vplc"):
            y = [-3000] * 8
            for j in rng.sample(range(8), nv):
                y[j] = 50
            c = {"variant": variant, "y": [str(v) for v in y], "nd": "-3000", "api": "kernel", "grid": [sc.fl(v) for v in (-1.0, 0.0, 1.0)], "lc": sc.fl(0.7)}
            if variant != "v":
                c["p"] = sc.fl(0.9)
            add(c)
    return cases


def describe(c):
    d = {k: c[k] for k in ("variant", "api", "nd", "p", "lc", "lopt", "sg") if k in c}
    d["n"] = len(c["y"])
    d["grid"] = [float(core.unrat(g)) for g in c.get("grid", [])][:6]
    d["y_head"] = c["y"][:8]
    d["out_head"] = c.get("out", [])[:8]
    return d


def run_smooth(prop, tier, seed, cases, rule, matchers=None):
    rep = core.Report(prop, tier, seed)
    rep.matchers.update(matchers or {})
    cases = [sc.execute(c) for c in cases]
    hinted = any(c.get("hinted_run") for c in cases)
    for c in cases:
        c["hinted"] = bool(hinted and c.get("hasp"))
    verdicts, st = core.validate_batch(MODULE, [sc.tla_case(c) for c in cases], per_jvm=5, timeout=7000, heap="4g")
    rep.add_stats("TraceSmooth", st, len(cases))
    rep.extra.update(
        distinct_nontrivial=len({json.dumps([c["variant"], c["y"], c.get("grid"), c.get("p"), c.get("lc"), c.get("robust")]) for c in cases}),
        by_variant={v: sum(1 for c in cases if c["variant"] == v) for v in sorted({c["variant"] for c in cases})},
        exhaustive=False,
        rule=rule,
    )
    for c in cases[:3] + cases[-2:]:
        rep.sample(describe(c))
    rep.settle(cases, verdicts)
    nskip = sum(rep.skips.values())
    if nskip * 2 > len(cases):
        raise core.Machinery(f"more than half of the cases were skipped as out of claim: {rep.skips}")
    rep.assumptions += ["logarithms / powers of ten / cosines enter only the ranking of candidates inside the 1e-6 tie band (java.lang.StrictMath on doubles)",
                        "asymmetric sweeps: the curve at a grid value is taken as the expectile fixed point certified from the logged final pattern; grid values where the kernel did not converge are SKIPped"]
    return rep


def run(tier, seed):
    rep = run_smooth("C04", tier, seed, gen_cases(tier, seed),
                     "series n 5..16 (quick) / ..64 (thorough; asymmetric ..32) with gaps, uniformly spaced ascending sranges (3..8 / ..40 entries, any start/step), p in (0,1) or none, "
                     "lc in [-1,1] incl. 0.5 and its float neighbours and NaN; kernels and whitsvc (dims orders, dask); pixels with 0 / 1 valid cells")
    return rep.finish()


def replay(path, prop="C04"):
    v = json.loads(open(path).read())
    t = v["trace"]
    c = sc.execute({k: t[k] for k in t if k not in ("out", "lopt", "pats", "hints", "sg", "tid", "hinted_run")})
    c["tid"] = 1
    verdicts, _ = core.validate_batch(MODULE, [sc.tla_case(c)], jobs=1)
    print("replayed", describe(c), "->", verdicts[1])
    if verdicts[1][0] == "REJECT":
        print(f"VIOLATION property={prop} replay={path}")
        return 1
    return 0
