"""shared by C07 / C08: run the SPI kernels / accessor on a cube, build one TLC case per pixel
with the SciPy oracle values (scipy.stats.gamma.fit / cdf / sf -- the public, independent path)"""
from __future__ import annotations

import warnings

import numpy as np

from . import core


def oracle(xs, nd, st, sp):
    """SciPy's evaluation of the definition's real functions for one pixel.
    returns (fit positions 1-based, G list, S list, ok)"""
    from scipy import stats

    n = len(xs)
    fit = [i + 1 for i in range(st, min(sp, n)) if xs[i] != nd and xs[i] > 0]
    sample = np.array([float(xs[i - 1]) for i in fit], dtype="float64")
    G, S = ["0"] * n, ["1"] * n
    if len(set(sample.tolist())) < 2:
        return fit, G, S, False
    with warnings.catch_warnings():
        warnings.simplefilter("ignore")
        try:
            a, _loc, scale = stats.gamma.fit(sample, floc=0)
        except Exception:
            return fit, G, S, False
    if not (np.isfinite(a) and np.isfinite(scale) and a > 0 and scale > 0):
        return fit, G, S, False
    for i, v in enumerate(xs):
        if v != nd and v >= 0:
            g = float(stats.gamma.cdf(float(v), a, scale=scale))
            s_ = float(stats.gamma.sf(float(v), a, scale=scale))
            if not (np.isfinite(g) and np.isfinite(s_)):
                return fit, G, S, False
            G[i], S[i] = core.rat(g), core.rat(s_)
    return fit, G, S, True


LAST_WATCH = None


def _drel(xs, fit, dtype):
    """float32 inputs: worst-case relative shift of the index caused by single-precision logarithms
    in s = log(mean) - mean(log): |d alpha / alpha| <= err(s)/s, index ~ sqrt(alpha)"""
    if dtype != "float32" or not fit:
        return "0"
    v = np.array([xs[i - 1] for i in fit], dtype="float64")
    s_stat = float(np.log(v.mean()) - np.log(v).mean())
    if s_stat <= 0:
        return "big"
    err = 2.0 * 6e-8 * (1.0 + float(np.abs(np.log(v)).max()))
    d = 0.5 * err / s_stat
    if d > 0.05:
        return "big"
    return core.rat(float(np.float32(d)))


def run_cube(pixels, nd, st, sp, api, dtype="int16", groups=None, dask=False, ndmode="attr"):
    """pixels: list of series (same length). returns (outcome, outs per pixel or None)"""
    import pandas as pd
    import xarray as xr

    from hdc.algo.ops.stats import gammastd_grp, gammastd_yxt

    T = len(pixels[0])
    pixels = [[float("nan") if isinstance(v, str) else v for v in px] for px in pixels]      # replayed traces spell NaN cells "nan"
    arr = np.array(pixels, dtype=dtype).reshape(1, len(pixels), T)
    global LAST_WATCH
    LAST_WATCH = core.Watch(arr)
    try:
        if api == "yxt":
            out = gammastd_yxt(arr, nd, st, sp)
        elif api == "grp":   # one group holding every step = the ungrouped definition through the grouped driver
            g = np.zeros(T, dtype="int16")
            out = gammastd_grp(arr, g, 1, nd, np.array([[st, sp]], dtype="int16"))
        else:
            # stamps at midnight, at noon (the CF convention for daily / dekadal means) and at an odd clock time, in turn: the
            # calibration bounds are instants of the axis, and the default window is the whole axis whatever the time of day
            time = pd.date_range(["2000-01-01", "2000-01-01 12:00", "2000-01-01 18:30"][(T // 2 + len(pixels)) % 3], periods=T, freq="10D")
            # how nodata reaches the accessor: attribute only / argument only / both and different (the argument wins)
            attrs = {"attr": {"nodata": nd}, "arg": {}, "both": {"nodata": (0 if nd != 0 else -1)}}[ndmode]
            da = xr.DataArray(arr, dims=("y", "x", "time"), coords={"time": time}, attrs=attrs)
            da = da.transpose(*[("y", "x", "time"), ("time", "y", "x"), ("y", "time", "x")][(T + len(pixels)) % 3])
            if dask:
                da = da.chunk({"x": 1})
            kw = {} if ndmode == "attr" else {"nodata": nd}
            if st > 0:
                kw["calibration_begin"] = time[st]
            if sp < T:
                kw["calibration_end"] = time[sp - 1]
            out = np.asarray(da.hdc.algo.spi(**kw).transpose("y", "x", "time"))
        out = np.asarray(out).reshape(len(pixels), T)
        return "ok", [[int(v) for v in row] for row in out.tolist()]
    except Exception as ex:
        return f"raise:{type(ex).__name__}", None


def cases_for(pixels, nd, st, sp, api, dtype, tag, checkvalue=True, dask=False, ndmode="attr"):
    outcome, outs = run_cube(pixels, nd, st, sp, api, dtype, dask=dask, ndmode=ndmode)
    res = []
    for pi, xs in enumerate(pixels):
        xs_t = [float(np.dtype(dtype).type(v)) for v in xs]   # the values as the kernel sees them
        # a NaN cell (float cubes with a numeric nodata) is an invalid observation: for the specification it is in the class of
        # negative values (not counted, not fitted, nodata in the result); the kernel sees the NaN
        xs_t = [-1.0 if v != v else v for v in xs_t]
        fit, G, S, ok = oracle(xs_t, float(nd), st, sp)
        res.append({
            "x": [core.rat(v) for v in xs_t], "nd": core.rat(float(nd)), "ndi": int(nd), "st": st, "sp": sp,
            "inmod": bool(LAST_WATCH and LAST_WATCH.changed()), "outcome": outcome, "out": outs[pi] if outs else [], "fit": fit, "G": G, "S": S,
            "dlt": 0 if dtype != "float32" else 3, "drel": _drel(xs_t, fit, dtype), "checkvalue": bool(checkvalue and ok and _drel(xs_t, fit, dtype) != "big"),
            "api": api, "dtype": dtype, "tag": tag, "ndmode": ndmode, "xi": ["nan" if v != v else v for v in xs], "pix": pi, "npix": len(pixels),
        })
    return res
