----------------------------- MODULE LazyCompile -----------------------------
(***************************************************************************)
(* hdc/algo/ops/_helper.py: lazycompile.  One wrapper (one closure cell    *)
(* `inner_decorated`) shared by the threads in Thread; each thread makes   *)
(* Calls[t] calls.  The wrapper's critical points are separate actions so  *)
(* that the check-then-act race on the cell is explored:                   *)
(*   Check      LOAD_DEREF inner_decorated; compare with None              *)
(*   Compile    CALL internal_decorator(f)  -> a fresh kernel object       *)
(*   Publish    STORE_DEREF inner_decorated                                *)
(*   Fetch      LOAD_DEREF inner_decorated (for the call)                  *)
(*   Invoke     CALL inner_decorated(args...) ; return                     *)
(* Kernels are numbered by compile order; every compiled kernel computes   *)
(* the same function F, so the result of a call is "F" iff what was called *)
(* is a kernel.                                                            *)
(***************************************************************************)
EXTENDS Integers, Sequences, FiniteSets

CONSTANTS Thread, Calls          \* Calls \in [Thread -> Nat \ {0}]
None == 0
VARIABLES cell,        \* the closure cell: None or a kernel number (> 0)
          pc,          \* per thread
          tmp,         \* per thread: value loaded / produced, not yet used
          compiles,    \* number of kernels produced so far
          left,        \* calls still to make per thread
          results      \* per thread: sequence of results of its finished calls
vars == <<cell, pc, tmp, compiles, left, results>>

Init == /\ cell = None
        /\ pc = [t \in Thread |-> "idle"]
        /\ tmp = [t \in Thread |-> None]
        /\ compiles = 0
        /\ left = Calls
        /\ results = [t \in Thread |-> <<>>]

Enter(t) == /\ pc[t] = "idle" /\ left[t] > 0
            /\ pc' = [pc EXCEPT ![t] = "check"]
            /\ UNCHANGED <<cell, tmp, compiles, left, results>>
Check(t) == /\ pc[t] = "check"
            /\ pc' = [pc EXCEPT ![t] = IF cell = None THEN "compile" ELSE "fetch"]
            /\ UNCHANGED <<cell, tmp, compiles, left, results>>
Compile(t) == /\ pc[t] = "compile"
              /\ compiles' = compiles + 1
              /\ tmp' = [tmp EXCEPT ![t] = compiles + 1]
              /\ pc' = [pc EXCEPT ![t] = "publish"]
              /\ UNCHANGED <<cell, left, results>>
Publish(t) == /\ pc[t] = "publish"
              /\ cell' = tmp[t]
              /\ pc' = [pc EXCEPT ![t] = "fetch"]
              /\ UNCHANGED <<tmp, compiles, left, results>>
Fetch(t) == /\ pc[t] = "fetch"
            /\ tmp' = [tmp EXCEPT ![t] = cell]
            /\ pc' = [pc EXCEPT ![t] = "invoke"]
            /\ UNCHANGED <<cell, compiles, left, results>>
Invoke(t) == /\ pc[t] = "invoke"
             /\ results' = [results EXCEPT ![t] = Append(@, IF tmp[t] \in 1..compiles THEN "F" ELSE "TypeError")]
             /\ left' = [left EXCEPT ![t] = @ - 1]
             /\ pc' = [pc EXCEPT ![t] = "idle"]
             /\ UNCHANGED <<cell, tmp, compiles>>

Step(t) == Enter(t) \/ Check(t) \/ Compile(t) \/ Publish(t) \/ Fetch(t) \/ Invoke(t)
Next == \E t \in Thread : Step(t)
Spec == Init /\ [][Next]_vars /\ \A t \in Thread : WF_vars(Step(t))

\* C12 on the wrapper
CellIsKernelOrNone == cell = None \/ cell \in 1..compiles
CallsOnlyKernels   == \A t \in Thread : pc[t] = "invoke" => tmp[t] \in 1..compiles
ResultsAreF        == \A t \in Thread : \A i \in 1..Len(results[t]) : results[t][i] = "F"
CompileBound       == compiles <= Cardinality(Thread)
OnceSetNeverNone   == [][cell # None => cell' # None]_vars
AllDone            == \A t \in Thread : left[t] = 0 /\ pc[t] = "idle"
Termination        == <>AllDone
=============================================================================
