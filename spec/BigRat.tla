------------------------------- MODULE BigRat -------------------------------
(***************************************************************************)
(* Exact rationals of unbounded size.  Values are canonical strings "p" or *)
(* "p/q" (q > 1, gcd(|p|,q) = 1), so TLA+ equality is numeric equality.    *)
(* The operators are evaluated by the Java module override                 *)
(* tlc2.module.BigRat (java/tlc2/module/BigRat.java); their meaning is the *)
(* field of rationals, whose reference semantics on small numbers is the   *)
(* pure-TLA+ module SmallRat.  MCArith checks that both agree.             *)
(*                                                                         *)
(* RLn, RSqrt, RCos, RPow10, RLog10 are REAL functions evaluated through   *)
(* IEEE doubles (error <= 2 ulp).  They are used only to rank candidates   *)
(* inside an explicit tie band, never where a property demands exactness.  *)
(***************************************************************************)
EXTENDS Integers, Sequences, TLC

Rat == STRING

RAdd(a, b)      == CHOOSE r \in Rat : TRUE
RSub(a, b)      == CHOOSE r \in Rat : TRUE
RMul(a, b)      == CHOOSE r \in Rat : TRUE
RDiv(a, b)      == CHOOSE r \in Rat : TRUE
RNeg(a)         == CHOOSE r \in Rat : TRUE
RAbs(a)         == CHOOSE r \in Rat : TRUE
RCmp(a, b)      == CHOOSE r \in {-1, 0, 1} : TRUE
RLt(a, b)       == CHOOSE r \in BOOLEAN : TRUE
RLe(a, b)       == CHOOSE r \in BOOLEAN : TRUE
REq(a, b)       == CHOOSE r \in BOOLEAN : TRUE
RSign(a)        == CHOOSE r \in {-1, 0, 1} : TRUE
RInt(i)         == CHOOSE r \in Rat : TRUE      \* Int -> Rat
RCanon(a)       == CHOOSE r \in Rat : TRUE      \* any "p/q" -> canonical
RIsInt(a)       == CHOOSE r \in BOOLEAN : TRUE
RFloor(a)       == CHOOSE r \in Int : TRUE      \* Rat -> Int (must fit 32 bits)
RRoundHE(a)     == CHOOSE r \in Int : TRUE      \* nearest integer, ties to even
RRoundMant(a,b) == CHOOSE r \in Rat : TRUE      \* nearest b-bit binary float
RLn(a)          == CHOOSE r \in Rat : TRUE
RSqrt(a)        == CHOOSE r \in Rat : TRUE
RCos(a)         == CHOOSE r \in Rat : TRUE
RPow10(a)       == CHOOSE r \in Rat : TRUE
RLog10(a)       == CHOOSE r \in Rat : TRUE
RShow(a)        == CHOOSE r \in STRING : TRUE   \* decimal rendering for messages

\* --- defined in TLA+ (the Java RSum is an accelerator with the same value)
RECURSIVE RSumRec(_, _)
RSumRec(s, k) == IF k = 0 THEN "0" ELSE RAdd(RSumRec(s, k - 1), s[k])
RSum(s) == RSumRec(s, Len(s))

\* ascending sort (the Java RSort is an accelerator of this definition)
RSort(s) == SortSeq(s, RLt)

RZero == "0"
ROne  == "1"
RGt(a, b) == RLt(b, a)
RGe(a, b) == RLe(b, a)
RMax(a, b) == IF RLt(a, b) THEN b ELSE a
RMin(a, b) == IF RLt(a, b) THEN a ELSE b
RSq(a) == RMul(a, a)
RHalf == "1/2"
\* |a - b| <= tol
RWithin(a, b, tol) == RLe(RAbs(RSub(a, b)), tol)
=============================================================================
