---------------------------- MODULE TraceAutocorr ----------------------------
EXTENDS Autocorr, Json, IOUtils
Cases == JsonDeserialize(IOEnv.TRACE_FILE)
VARIABLES k, v
\* c.data: the series (nan = missing); c.rs: the results of every API / encoding / layout
\* asked for this series (all must be acceptable images of the same number)
Verdict(c) ==
    LET bad == {i \in 1..Len(c.rs) : c.rs[i] \in {"nan", "inf", "-inf"} \/ ~ResultOK(c.data, c.rs[i], IF c.f64[i] THEN "1000000001/1000000000" ELSE "1")} IN
    IF bad = {} THEN <<"ACCEPT", "", "">>
    ELSE LET i == CHOOSE i \in bad : \A o \in bad : i <= o IN
         <<"REJECT", IF Degenerate(c.data) THEN "ZeroRule" ELSE "MeanFilledPearson", c.apis[i]>>
\* generic clauses of every recorded call: the caller's arrays come back untouched; an exception is an event
Guarded(c) == IF "inmod" \in DOMAIN c /\ c.inmod THEN <<"REJECT", "InputsUnmodified", "">>
              ELSE IF "exc" \in DOMAIN c /\ c.exc # "" THEN <<"REJECT", "NoException", c.exc>>
              ELSE Verdict(c)
Init == k \in 1..Len(Cases) /\ v = "todo"
Next == /\ v = "todo"
        /\ LET r == Guarded(Cases[k]) IN PrintT(<<"V", k, r[1], r[2], r[3]>>) /\ v' = r[1]
        /\ UNCHANGED k
TraceSpec == Init /\ [][Next]_<<k, v>>
=============================================================================
