"""Input selection only (never a verdict): numpy sketches of the V-curve and GCV criteria used to
FIND series on which selection bugs manifest -- criteria with two competing minima, near (but not
floating-point) ties.  The chosen series are then executed on the real code and decided by TLC."""
from __future__ import annotations

import numpy as np


def _pls(y, w, lam):
    n = len(y)
    D = np.diff(np.eye(n), 2, axis=0)
    return np.linalg.solve(np.diag(w) + lam * D.T @ D, w * y)


def vcurve(y, w, grid):
    fits, pens = [], []
    for g in grid:
        z = _pls(y, w, 10.0**g)
        fits.append(np.log(np.sum((w * (y - z)) ** 2) + 1e-300))
        pens.append(np.log(np.sum(np.diff(z, 2) ** 2) + 1e-300))
    return np.hypot(np.diff(fits), np.diff(pens))


def gcv(y, w, grid):
    m = len(y)
    e = -2 + 2 * np.cos(np.arange(m) * np.pi / m)
    e[0] = 1e-15
    out = []
    for g in grid:
        s = 10.0**g
        z = _pls(y, w, s)
        trh = np.sum(w / (w + s * e**2))
        nw = w.sum()
        out.append(np.sum(w * (y - z) ** 2) / (nw * (1 - trh / nw) ** 2))
    return np.array(out)


def local_minima(c):
    return [i for i in range(len(c)) if (i == 0 or c[i] < c[i - 1]) and (i == len(c) - 1 or c[i] <= c[i + 1])]


def find(rng, kind, grid, n_choices=(5, 6, 8, 10, 12, 16), tries=4000, nd=-3000):
    """search random gappy integer series for: 'gcv2min' (two GCV minima, the first clearly worse, a hump
    between them), 'vnear' (two lowest V ordinates within 3 % but not tied)"""
    grid = np.asarray(grid, dtype="float64")
    for _ in range(tries):
        n = rng.choice(n_choices)
        y = np.array([rng.randint(-3000 + 1, 9000) if rng.random() < 0.5 else int(3000 + 2000 * np.sin(t * 0.7) + rng.gauss(0, 400)) for t in range(n)], dtype="float64")
        miss = [j for j in range(n) if rng.random() < rng.choice([0.0, 0.2, 0.4])]
        w = np.ones(n)
        w[miss] = 0
        if w.sum() < 6:
            continue
        if kind == "gcv2min":
            c = gcv(y, w, grid)
            mins = local_minima(c)
            if len(mins) >= 2 and c[mins[0]] > c[min(mins, key=lambda i: c[i])] * 1.05 and mins[0] != min(mins, key=lambda i: c[i]):
                hump = c[mins[0] : min(mins, key=lambda i: c[i]) + 1].max()
                if hump > 1.5 * c[mins[0]]:
                    yy = y.copy()
                    yy[miss] = nd
                    return [int(v) for v in yy]
        else:
            c = vcurve(y, w, grid)
            o = np.sort(c)
            if len(o) >= 2 and o[1] / o[0] < 1.03 and o[1] / o[0] > 1.0001:
                yy = y.copy()
                yy[miss] = nd
                return [int(v) for v in yy]
    return None
