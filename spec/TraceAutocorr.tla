---------------------------- MODULE TraceAutocorr ----------------------------
EXTENDS Autocorr, Json, IOUtils
Cases == JsonDeserialize(IOEnv.TRACE_FILE)
VARIABLES k, v
\* c.data: the series (nan = missing); c.rs: the results of every API / encoding / layout
\* asked for this series (all must be acceptable images of the same number)
Verdict(c) ==
    LET bad == {i \in 1..Len(c.rs) : c.rs[i] \in {"nan", "inf", "-inf"} \/ ~ResultOK(c.data, c.rs[i], IF c.f64[i] THEN "1000000000001/1000000000000" ELSE "1")} IN
    IF bad = {} THEN <<"ACCEPT", "", "">>
    ELSE LET i == CHOOSE i \in bad : \A o \in bad : i <= o IN
         <<"REJECT", IF Degenerate(c.data) THEN "ZeroRule" ELSE "MeanFilledPearson", c.apis[i]>>
Init == k \in 1..Len(Cases) /\ v = "todo"
Next == /\ v = "todo"
        /\ LET r == Verdict(Cases[k]) IN PrintT(<<"V", k, r[1], r[2], r[3]>>) /\ v' = r[1]
        /\ UNCHANGED k
TraceSpec == Init /\ [][Next]_<<k, v>>
=============================================================================
