"""X02 (extra) - the repository's own tests as a trace source.

The 112 tests are run under harness/pytest_recorder.py; every call they make to the public kernels
is recorded (arguments and results) and validated by the same Trace* modules as the listed
properties: the existing tests thereby run with the specification's assertions instead of their
pinned numbers (which were mostly produced by the code under test).
"""
from __future__ import annotations

import json
import os
import subprocess
import sys

import numpy as np

from .. import core, smooth_common as sc


def record():
    f = core.newdir("rec") / "calls.jsonl"
    env = dict(os.environ, VERIF_RECORD_FILE=str(f), PYTHONPATH=f"{core.VERIF}:{core.REPO}")
    p = subprocess.run([sys.executable, "-m", "pytest", "-q", "-p", "no:cacheprovider", "-p", "harness.pytest_recorder", "tests"], cwd=str(core.REPO), env=env, capture_output=True, text=True, timeout=1800)
    tail = (p.stdout.strip().splitlines() or [""])[-1]
    recs = [json.loads(l) for l in open(f)] if f.exists() else []
    return recs, tail


def arr(a):
    if isinstance(a, dict) and a.get("nd"):
        data = [np.nan if v is None else (np.inf if v == "inf" else -np.inf if v == "-inf" else v) for v in a["data"]]
        return np.array(data, dtype="float64" if a["dtype"].startswith("float") else a["dtype"]).reshape(a["shape"])
    return np.asarray(a)


def pixels(a):
    """iterate the core (last) dimension over all leading indices"""
    a = np.asarray(a)
    if a.ndim == 1:
        yield (), a
    else:
        for ix in np.ndindex(*a.shape[:-1]):
            yield ix, a[ix]


def bc(v, ix):
    v = np.asarray(v)
    return v.item() if v.ndim == 0 else v[ix].item() if v.shape == () or v.ndim == len(ix) else v[ix]


def cells(v):
    return [core.rat(x) for x in np.asarray(v, dtype="float64").reshape(-1).tolist()]


def convert(recs):
    smooth, red, runs, auto, tint = [], [], [], [], []
    for r in recs:
        fn, a, res = r["fn"], [arr(x) for x in r["args"]], r["res"]
        if fn in ("ws2dgu", "ws2dpgu"):
            out = arr(res)
            for ix, y in pixels(a[0]):
                c = {"op": "fixed", "variant": "gu" if fn == "ws2dgu" else "pgu", "y": cells(y), "lam": sc.fl(bc(a[1], ix)), "nd": sc.fl(bc(a[2], ix))}
                if fn == "ws2dpgu":
                    c["p"] = sc.fl(bc(a[3], ix))
                c["_out"] = [int(v) for v in np.asarray(out[ix] if out.ndim > 1 else out).tolist()]
                smooth.append(c)
        elif fn in ("ws2doptv", "ws2doptvp", "ws2doptvplc", "ws2dwcv", "ws2dwcvp"):
            out, lo = arr(res[0]), arr(res[1])
            for ix, y in pixels(a[0]):
                v = {"ws2doptv": "v", "ws2doptvp": "vp", "ws2doptvplc": "vplc", "ws2dwcv": "wcv", "ws2dwcvp": "wcvp"}[fn]
                c = {"op": "vcurve" if v in ("v", "vp", "vplc") else "gcv", "variant": v, "y": cells(y), "nd": sc.fl(bc(a[1], ix))}
                if v == "v":
                    c["grid"] = cells(a[2])
                elif v == "vp":
                    c["p"], c["grid"] = sc.fl(bc(a[2], ix)), cells(a[3])
                elif v == "vplc":
                    c["p"], c["lc"] = sc.fl(bc(a[2], ix)), core.rat(float(bc(a[3], ix)))
                elif v == "wcv":
                    c["grid"], c["robust"] = cells(a[2]), bool(bc(a[3], ix))
                else:
                    c["p"], c["grid"], c["robust"] = sc.fl(bc(a[2], ix)), cells(a[3]), bool(bc(a[4], ix))
                c["_out"] = [int(x) for x in np.asarray(out[ix] if out.ndim > 1 else out).tolist()]
                c["_lopt"] = sc.fl(float(lo[ix] if lo.ndim else lo))
                smooth.append(c)
        elif fn == "rolling_sum":
            out = arr(res)
            for ix, x in pixels(a[0]):
                if all(float(v) == int(v) for v in x.tolist()):
                    red.append({"op": "roll", "api": "kernel", "exc": "", "x": [int(v) for v in x.tolist()], "w": int(bc(a[1], ix)), "nd": int(bc(a[2], ix)), "y": cells(out[ix] if out.ndim > 1 else out)})
        elif fn == "mean_grp":
            out = arr(res)
            for ix, x in pixels(a[0]):
                if all(float(v) == int(v) for v in x.tolist()) and float(bc(a[3], ix)) == int(bc(a[3], ix)):
                    red.append({"op": "meangrp", "api": "kernel", "exc": "", "x": [int(v) for v in x.tolist()], "g": [int(v) for v in a[1].tolist()], "ng": int(bc(a[2], ix)), "nd": int(bc(a[3], ix)), "y": cells(out[ix] if out.ndim > 1 else out)})
        elif fn == "lroo":
            out = arr(res)
            for ix, x in pixels(a[0]):
                runs.append({"op": "lroo", "x": [int(v) for v in x.tolist()], "y": int(out[ix] if out.ndim else out)})
        elif fn in ("autocorr", "autocorr_tyx"):
            out = arr(res)
            x = a[0] if fn == "autocorr" else np.moveaxis(a[0], 0, -1)
            nd = a[1].item() if len(a) > 1 and a[1].shape == () and a[1].dtype != object else None
            for ix, s in pixels(x):
                data = ["nan" if (v != v or (nd is not None and v == nd)) else core.rat(v) for v in np.asarray(s, dtype="float64").tolist()]
                auto.append({"data": data, "rs": [core.rat(out[ix])], "apis": [fn], "f64": [False]})
        elif fn == "tinterpolate":
            out = arr(res)
            for ix, x in pixels(a[0]):
                tint.append({"op": "general", "x": [str(int(v)) for v in x.tolist()], "tmpl": [int(v) for v in a[1].tolist()], "labels": [int(v) for v in a[2].tolist()],
                             "tmpl_after": [int(v) for v in a[1].tolist()], "labels_after": [int(v) for v in a[2].tolist()], "out": [int(v) for v in np.asarray(out[ix] if out.ndim > 1 else out).tolist()]})
    return smooth, red, runs, auto, tint


def run(tier, seed):
    rep = core.Report("X02", tier, seed)
    recs, tail = record()
    if "passed" not in tail:
        raise core.Machinery(f"repository tests did not pass under the recorder: {tail}")
    smooth, red, runs, auto, tint = convert(recs)
    # smoothers: hints from the kernel source; the RECORDED result is what is judged
    sm = []
    for c in smooth:
        e = sc.execute(dict({k: v for k, v in c.items() if not k.startswith("_")}, api="kernel"))
        e["rerun_equal"] = e["out"] == c["_out"]
        e["out"] = c["_out"]
        if "_lopt" in c:
            e["lopt"] = c["_lopt"]
        e["hinted"] = bool(e.get("hinted_run") and e.get("hasp"))
        sm.append(e)
    total = 0
    for module, cases, conv in (("TraceSmooth", sm, sc.tla_case), ("TraceReductions", red, None), ("TraceRuns", runs, None), ("TraceAutocorr", auto, None), ("TraceTinterp", tint, None)):
        for i, c in enumerate(cases):
            c["tid"] = i + 1
        payload = [conv(c) for c in cases] if conv else cases
        verdicts, st = core.validate_batch(module, payload, per_jvm=40, timeout=3000)
        rep.add_stats(f"{module} on calls made by the repository's tests", st, len(cases))
        rep.settle([dict(c, family=module) for c in cases], verdicts)
        total += len(cases)
    rep.extra.update(distinct_nontrivial=total, kernel_calls_recorded=len(recs), pytest=tail, exhaustive=False,
                     rule="every positional call the repository's 112 tests make to 18 public kernels, split per pixel",
                     smoother_results_not_reproduced=sum(1 for e in sm if not e["rerun_equal"]))
    for c in (sm[:1] + red[:1] + auto[:1]):
        rep.sample({k: (v if not isinstance(v, list) else v[:8]) for k, v in c.items() if k not in ("pats", "hints")})
    return rep.finish()


def replay(path):
    v = json.loads(open(path).read())
    print("recorded call:", json.dumps(v["trace"])[:1500])
    print(f"VIOLATION property=X02 replay={path}")
    return 1
