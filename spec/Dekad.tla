------------------------------- MODULE Dekad -------------------------------
(***************************************************************************)
(* hdc/algo/dekad.py.  The proleptic Gregorian calendar is built from      *)
(* first principles (leap rule, month lengths, day ordinals with           *)
(* 0001-01-01 = 1, as datetime.date.toordinal) and the dekad arithmetic is *)
(* stated on top of it.                                                    *)
(***************************************************************************)
EXTENDS Integers, Sequences

IsLeap(y) == (y % 4 = 0 /\ y % 100 # 0) \/ y % 400 = 0
DaysInMonth(y, m) ==
    CASE m \in {1, 3, 5, 7, 8, 10, 12} -> 31
      [] m \in {4, 6, 9, 11}           -> 30
      [] m = 2                         -> IF IsLeap(y) THEN 29 ELSE 28
DaysInYear(y) == IF IsLeap(y) THEN 366 ELSE 365
DaysBeforeYear(y) == LET p == y - 1 IN 365 * p + (p \div 4) - (p \div 100) + (p \div 400)
RECURSIVE DaysBeforeMonth(_, _)
DaysBeforeMonth(y, m) == IF m = 1 THEN 0 ELSE DaysBeforeMonth(y, m - 1) + DaysInMonth(y, m - 1)
Ordinal(y, m, d) == DaysBeforeYear(y) + DaysBeforeMonth(y, m) + d
ValidDate(y, m, d) == y \in 1..9999 /\ m \in 1..12 /\ d \in 1..DaysInMonth(y, m)

----------------------------------------------------------------------------
(* the dekad of a date, and the fields of a dekad given as raw integer *)
Min2(a, b) == IF a < b THEN a ELSE b
RawOfDate(y, m, d) == 36 * y + 3 * (m - 1) + Min2(2, (d - 1) \div 10)
RawOfLabel(y, m, i) == 36 * y + 3 * (m - 1) + (i - 1)

Year(r)  == r \div 36
Month(r) == 1 + ((r % 36) \div 3)
Idx(r)   == 1 + (r % 3)
Yidx(r)  == 3 * (Month(r) - 1) + Idx(r)
StartDay(r) == 1 + 10 * (Idx(r) - 1)
EndDay(r)   == IF Idx(r) < 3 THEN 10 * Idx(r) ELSE DaysInMonth(Year(r), Month(r))
NDays(r)    == EndDay(r) - StartDay(r) + 1
StartOrd(r) == Ordinal(Year(r), Month(r), StartDay(r))
EndOrd(r)   == Ordinal(Year(r), Month(r), EndDay(r))

FirstRaw == RawOfLabel(1, 1, 1)        \* 0001-01-d1
LastRaw  == RawOfLabel(9999, 12, 3)    \* 9999-12-d3
InRange(r) == FirstRaw <= r /\ r <= LastRaw

----------------------------------------------------------------------------
(* C11 on the definitions *)
Abut(r)        == InRange(r + 1) => StartOrd(r + 1) = EndOrd(r) + 1
Covers(r)      == StartOrd(r) <= EndOrd(r) /\ NDays(r) \in {8, 9, 10, 11}
MonthSum(y, m) == LET r == RawOfLabel(y, m, 1) IN NDays(r) + NDays(r + 1) + NDays(r + 2) = DaysInMonth(y, m)
InverseOK(r)   == /\ RawOfLabel(Year(r), Month(r), Idx(r)) = r
                  /\ RawOfDate(Year(r), Month(r), StartDay(r)) = r
                  /\ RawOfDate(Year(r), Month(r), EndDay(r)) = r
                  /\ Yidx(r) \in 1..36 /\ 36 * Year(r) + Yidx(r) - 1 = r
\* every day of the dekad maps back to it (partition)
DaysMapBack(r) == \A d \in StartDay(r)..EndDay(r) : RawOfDate(Year(r), Month(r), d) = r
DekadOK(r) == Abut(r) /\ Covers(r) /\ InverseOK(r) /\ DaysMapBack(r)
           /\ (Idx(r) = 1 => MonthSum(Year(r), Month(r)))
=============================================================================
