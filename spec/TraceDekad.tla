----------------------------- MODULE TraceDekad -----------------------------
(***************************************************************************)
(* Observations of the real Dekad class against spec/Dekad.tla.            *)
(*  scan: the day -> dekad map observed by constructing Dekad(date) for    *)
(*        EVERY day of a range in order, run-length encoded; one row per   *)
(*        run with all public fields of the object.                        *)
(*  acc:  element-wise results of the .dekad xarray accessor.              *)
(***************************************************************************)
EXTENDS Dekad, Json, IOUtils, TLC, FiniteSets

Cases == JsonDeserialize(IOEnv.TRACE_FILE)
VARIABLES k, v
Min(S) == CHOOSE m \in S : \A o \in S : m <= o

\* row: raw first last year month idx yidx ly lm li lfmt sy sm sd sclean ey em ed eclean ndays hashok cmpok
RowClause(w) ==
    LET r == w[1] IN
    IF ~InRange(r) THEN "RawRange"
    ELSE IF w[2] # StartOrd(r) THEN "FirstDay"
    ELSE IF w[3] # EndOrd(r) THEN "LastDay"
    ELSE IF <<w[4], w[5], w[6], w[7]>> # <<Year(r), Month(r), Idx(r), Yidx(r)>> THEN "Fields"
    ELSE IF <<w[8], w[9], w[10], w[11]>> # <<Year(r), Month(r), Idx(r), 1>> THEN "Label"
    ELSE IF <<w[12], w[13], w[14], w[15]>> # <<Year(r), Month(r), StartDay(r), 1>> THEN "StartDate"
    ELSE IF r # LastRaw /\ <<w[16], w[17], w[18], w[19]>> # <<Year(r), Month(r), EndDay(r), 1>> THEN "EndDate"
    ELSE IF r # LastRaw /\ w[20] # NDays(r) THEN "NDays"
    ELSE IF w[21] # 1 THEN "Hash"
    \* w[22]: the dekad compares as equal to (<=, >=, not <, not >) the first, a middle and the LAST day of its own run,
    \* given as date and as end-of-day datetime, and its neighbours compare strictly below / above those days
    ELSE IF Len(w) >= 22 /\ w[22] # 1 THEN "OrderWithDates"
    ELSE "ok"

Scan(c) ==
    LET n == Len(c.runs)
        badrow == {i \in 1..n : RowClause(c.runs[i]) # "ok"}
        badadj == {i \in 1..n : (IF i = 1 THEN c.prev ELSE c.runs[i - 1][1]) + 1 # c.runs[i][1]}
    IN  IF n = 0 THEN <<"REJECT", "EmptyScan", "">>
        ELSE IF badrow # {} THEN <<"REJECT", RowClause(c.runs[Min(badrow)]), ToString(c.runs[Min(badrow)])>>
        ELSE IF badadj # {} THEN <<"REJECT", "Consecutive", ToString(c.runs[Min(badadj)])>>
        ELSE IF c.runs[1][2] # c.firstord \/ c.runs[n][3] # c.lastord THEN <<"REJECT", "ScanCover", "">>
        ELSE <<"ACCEPT", "", ToString(n)>>

\* acc row: y m d ord raw idx yidx ndays ly lm li sy sm sd ey em ed
AccClause(w) ==
    LET y == w[1]  m == w[2]  d == w[3]  r == RawOfDate(w[1], w[2], w[3]) IN
    IF ~ValidDate(y, m, d) \/ Ordinal(y, m, d) # w[4] THEN "HarnessDate"
    ELSE IF w[5] # r THEN "AccRaw"
    ELSE IF <<w[6], w[7]>> # <<Idx(r), Yidx(r)>> THEN "AccIdx"
    ELSE IF w[8] # NDays(r) THEN "AccNDays"
    ELSE IF <<w[9], w[10], w[11]>> # <<Year(r), Month(r), Idx(r)>> THEN "AccLabel"
    ELSE IF <<w[12], w[13], w[14]>> # <<Year(r), Month(r), StartDay(r)>> THEN "AccStart"
    ELSE IF <<w[15], w[16], w[17]>> # <<Year(r), Month(r), EndDay(r)>> THEN "AccEnd"
    ELSE "ok"

Acc(c) ==
    LET bad == {i \in 1..Len(c.rows) : AccClause(c.rows[i]) # "ok"} IN
    IF bad = {} THEN <<"ACCEPT", "", ToString(Len(c.rows))>>
    ELSE <<"REJECT", AccClause(c.rows[Min(bad)]), ToString(c.rows[Min(bad)])>>

Verdict(c) == CASE c.op = "scan" -> Scan(c) [] c.op = "acc" -> Acc(c) [] OTHER -> <<"REJECT", "UnknownOp", c.op>>

Init == k \in 1..Len(Cases) /\ v = "todo"
Next == /\ v = "todo"
        /\ LET r == Verdict(Cases[k]) IN PrintT(<<"V", k, r[1], r[2], r[3]>>) /\ v' = r[1]
        /\ UNCHANGED k
TraceSpec == Init /\ [][Next]_<<k, v>>
=============================================================================
