"""Shared machinery: TLC runner, trace batches, verdict parsing, findings, evidence.

Everything that *decides* a property is TLA+ evaluated by TLC; this module only
moves data (recorded executions of the real code -> JSON -> TLC -> verdict lines)
and does the bookkeeping the interface asks for.
"""
from __future__ import annotations

import json
import os
import re
import shutil
import subprocess
import sys
import tempfile
import time
from concurrent.futures import ThreadPoolExecutor
from fractions import Fraction
from pathlib import Path

VERIF = Path(__file__).resolve().parent.parent
SPEC = VERIF / "spec"
BUILD = VERIF / "build"
CLASSES = BUILD / "classes"
EVIDENCE = Path(os.environ["VERIF_EVIDENCE_DIR"]) if os.environ.get("VERIF_EVIDENCE_DIR") else VERIF / "evidence"      # seeded-change runs write elsewhere
REPLAY = VERIF / "replay"
REPO = Path(os.environ.get("VERIF_REPO", "/repo"))
TLA_JAR = "/opt/veriftools/tla/tla2tools.jar"
CM_JAR = "/opt/veriftools/tla/CommunityModules-deps.jar"
NCPU = os.cpu_count() or 4


class Machinery(Exception):
    """The verification machinery itself failed (exit code 2, never a verdict)."""


# --------------------------------------------------------------------------
# numbers -> TLA+ values
# --------------------------------------------------------------------------
def rat(x) -> str:
    """Canonical BigRat string of an exactly representable number."""
    if isinstance(x, bool):
        x = int(x)
    if isinstance(x, int):
        return str(x)
    if isinstance(x, Fraction):
        f = x
    else:
        import numpy as np

        if isinstance(x, np.integer):
            return str(int(x))
        xf = float(x)
        if xf != xf:
            return "nan"
        if xf in (float("inf"), float("-inf")):
            return "inf" if xf > 0 else "-inf"
        f = Fraction(*xf.as_integer_ratio())
    return str(f.numerator) if f.denominator == 1 else f"{f.numerator}/{f.denominator}"


def unrat(s: str) -> Fraction:
    return Fraction(s)


# --------------------------------------------------------------------------
# TLC
# --------------------------------------------------------------------------
_STATS = re.compile(r"(\d+) states generated, (\d+) distinct states found, (\d+) states left on queue")
_INIT = re.compile(r"Finished computing initial states: (\d+) distinct state")
_VERDICT = re.compile(r'<<"V", (.*)>>')


class TlcResult:
    def __init__(self, out: str, rc: int, wall: float, cmd: list[str]):
        self.out, self.rc, self.wall, self.cmd = out, rc, wall, cmd
        m = None
        for m in _STATS.finditer(out):
            pass
        self.generated = int(m.group(1)) if m else 0
        self.distinct = int(m.group(2)) if m else 0
        self.queue = int(m.group(3)) if m else 0
        md = re.search(r"The depth of the complete state graph search is (\d+)", out)
        self.depth = int(md.group(1)) if md else 0
        mi = _INIT.search(out)
        self.initial = int(mi.group(1)) if mi else 0
        self.transitions = max(self.generated - self.initial, 0)
        self.ok = rc == 0 and "Model checking completed. No error has been found." in out
        self.invariant_violated = bool(re.search(r"Invariant (\S+) is violated", out)) or (
            "is violated" in out and "Error:" in out
        )

    def violated_name(self) -> str | None:
        m = re.search(r"(?:Invariant|Action property|Temporal property|property) (\S+) (?:is|was) violated", self.out)
        return m.group(1) if m else None

    def coverage(self) -> dict[str, int]:
        """per-action distinct-state counts from `-coverage` output"""
        cov: dict[str, int] = {}
        for m in re.finditer(r"<(\w+) line \d+, col \d+ to line \d+, col \d+ of module (\w+)>: (\d+):(\d+)", self.out):
            cov[f"{m.group(2)}!{m.group(1)}"] = max(cov.get(f"{m.group(2)}!{m.group(1)}", 0), int(m.group(4)))
        return cov

    def verdicts(self) -> list[list]:
        """every PrintT(<<"V", ...>>) value (possibly pretty-printed over several lines)"""
        return extract_tuples(self.out, "V")

    def tail(self, n=40) -> str:
        return "\n".join(self.out.splitlines()[-n:])


def _tla_to_json(s: str) -> str:
    # tuples <<a, b>> -> [a, b]; TRUE/FALSE -> true/false ; records not used in verdict lines
    s = re.sub(r"\s*\n\s*", " ", s)
    s = s.replace("<<", "[").replace(">>", "]")
    s = re.sub(r"\bTRUE\b", "true", s)
    s = re.sub(r"\bFALSE\b", "false", s)
    return s


def extract_tuples(out: str, tag: str) -> list[list]:
    """all TLA+ tuples <<"tag", ...>> printed in `out`, bracket-matched, as Python lists (without the tag)"""
    res = []
    for m in re.finditer(r'<<\s*"' + re.escape(tag) + r'"\s*,', out):
        i = m.start()
        depth = 0
        j = i
        instr = False
        while j < len(out):
            ch = out[j]
            if instr:
                if ch == "\\":
                    j += 1
                elif ch == '"':
                    instr = False
            elif ch == '"':
                instr = True
            elif out.startswith("<<", j):
                depth += 1
                j += 1
            elif out.startswith(">>", j):
                depth -= 1
                j += 1
                if depth == 0:
                    break
            j += 1
        body = out[i : j + 1]
        try:
            val = json.loads(_tla_to_json(body))
        except Exception:
            raise Machinery(f"unparsable TLC tuple: {body[:300]}")
        res.append(val[1:])
    return res


_scratch_root = None


def scratch() -> Path:
    """per-process scratch dir under /verif/build (removed at exit)."""
    global _scratch_root
    if _scratch_root is None:
        BUILD.mkdir(exist_ok=True)
        _scratch_root = Path(tempfile.mkdtemp(prefix="run.", dir=BUILD))
        import atexit

        atexit.register(lambda: shutil.rmtree(_scratch_root, ignore_errors=True))
    return _scratch_root


_counter = 0


def newdir(tag: str) -> Path:
    global _counter
    _counter += 1
    d = scratch() / f"{tag}.{_counter}"
    d.mkdir(parents=True, exist_ok=True)
    return d


def ensure_built():
    cls = CLASSES / "tlc2/module/BigRat.class"
    src = VERIF / "java/tlc2/module/BigRat.java"
    if not cls.exists() or cls.stat().st_mtime < src.stat().st_mtime:
        subprocess.run([str(VERIF / "harness/build.sh")], check=True)


def tlc(
    module: str,
    cfg: str,
    *,
    env: dict | None = None,
    workers: int | str = 1,
    timeout: int = 1800,
    coverage: bool = False,
    simulate: str | None = None,
    depth: int | None = None,
    extra: list[str] | None = None,
    heap: str = "3g",
    deque: bool = False,
    defs: str | None = None,
    tag: str | None = None,
    seed: int | None = None,
) -> TlcResult:
    """Run TLC on spec/<module>.tla with the given cfg text.

    `defs`: optional TLA+ text of a wrapper module `MC_<module>` that EXTENDS the
    module and adds definitions (literal constants for this run); the wrapper is
    what TLC is run on.
    """
    ensure_built()
    d = newdir(tag or module)
    root = module
    if defs is not None:
        root = f"MC_{module}"
        (d / f"{root}.tla").write_text(
            f"---- MODULE {root} ----\nEXTENDS {module}\n{defs}\n====\n"
        )
        spec_path = d / f"{root}.tla"
    else:
        spec_path = SPEC / f"{module}.tla"
    cfg_path = d / f"{root}.cfg"
    cfg_path.write_text(cfg)
    cmd = [
        "java",
        f"-Xmx{heap}",
        "-Xss512m",
        "-XX:+UseSerialGC" if str(workers) == "1" else "-XX:+UseParallelGC",
        f"-DTLA-Library={SPEC}",
    ]
    if deque:
        cmd.append("-Dtlc2.tool.queue.IStateQueue=StateDeque")
    cmd += [
        "-cp",
        f"{CLASSES}:{TLA_JAR}:{CM_JAR}",
        "tlc2.TLC",
        "-workers",
        str(workers),
        "-metadir",
        str(d / "meta"),
        "-noGenerateSpecTE",
        "-config",
        str(cfg_path),
    ]
    if coverage:
        cmd += ["-coverage", "1"]
    if simulate is not None:
        cmd += ["-simulate", simulate]
    if depth is not None:
        cmd += ["-depth", str(depth)]
    if seed is not None:
        cmd += ["-seed", str(seed)]
    if extra:
        cmd += extra
    cmd.append(str(spec_path))
    e = dict(os.environ)
    e.pop("JAVA_TOOL_OPTIONS", None)
    if env:
        e.update({k: str(v) for k, v in env.items()})
    t0 = time.time()
    try:
        p = subprocess.run(cmd, cwd=d, env=e, capture_output=True, text=True, timeout=timeout)
        out, rc = p.stdout + p.stderr, p.returncode
    except subprocess.TimeoutExpired as ex:
        out = (ex.stdout or b"").decode(errors="replace") if isinstance(ex.stdout, bytes) else (ex.stdout or "")
        out += "\nTLC-TIMEOUT"
        rc = 124
    res = TlcResult(out, rc, time.time() - t0, cmd)
    shutil.rmtree(d / "meta", ignore_errors=True)
    return res


def apalache(module: str, inv: str, *, length: int = 0, timeout: int = 600, extra: list[str] | None = None) -> tuple[bool, str, float]:
    """symbolic check of an invariant with Apalache (unbounded integers); returns (no error found, output tail, wall)"""
    d = newdir("apa-" + module)
    shutil.copy(SPEC / f"{module}.tla", d / f"{module}.tla")
    cmd = ["apalache-mc", "check", f"--inv={inv}", f"--length={length}", f"--out-dir={d / 'out'}"] + (extra or []) + [f"{module}.tla"]
    t0 = time.time()
    try:
        p = subprocess.run(cmd, cwd=d, capture_output=True, text=True, timeout=timeout)
        out = p.stdout + p.stderr
    except subprocess.TimeoutExpired:
        out = "APALACHE-TIMEOUT"
    shutil.rmtree(d / "out", ignore_errors=True)
    return ("EXITCODE: OK" in out and "no error" in out), "\n".join(out.splitlines()[-12:]), time.time() - t0


def must_pass(res: TlcResult, what: str) -> TlcResult:
    """An exhaustive model-checking run that is expected to find no error."""
    if not res.ok:
        raise Machinery(f"TLC run '{what}' did not complete cleanly (rc={res.rc}):\n{res.tail(60)}")
    return res


# --------------------------------------------------------------------------
# batched trace validation
# --------------------------------------------------------------------------
def _no_null(o):
    """TLC's JSON reader has no null: spell it as the string "null" """
    if o is None:
        return "null"
    if isinstance(o, dict):
        return {k: _no_null(v) for k, v in o.items()}
    if isinstance(o, (list, tuple)):
        return [_no_null(v) for v in o]
    return o


def validate_batch(
    module: str,
    traces: list[dict],
    *,
    cfg: str | None = None,
    jobs: int | None = None,
    per_jvm: int = 400,
    timeout: int = 1800,
    heap: str = "3g",
    deque: bool = False,
    defs: str | None = None,
    common: dict | None = None,
):
    """Validate recorded traces with spec/<module>.tla (a Trace* module).

    With `common` the batch file is {"common": ..., "cases": [...]} (tables shared by all cases).

    The module reads the batch with JsonDeserialize(IOEnv.TRACE_FILE) and prints
    one or more lines  <<"V", tid, "ACCEPT"|"REJECT"|"SKIP", clause, detail>> per
    trace.  Returns (verdicts: dict tid -> (kind, clause, detail), stats).
    A trace is ACCEPTed if any branch accepted it, SKIPped if no branch accepted
    and some branch skipped, REJECTed otherwise; a trace without a line is a
    machinery failure.
    """
    if not traces:
        return {}, {"states": 0, "transitions": 0, "jvms": 0, "wall": 0.0}
    jobs = jobs or min(NCPU, 16)
    n = len(traces)
    nb = max(1, min(jobs, (n + per_jvm - 1) // per_jvm if n > per_jvm * jobs else jobs))
    nb = min(nb, n)
    size = (n + nb - 1) // nb
    if size > per_jvm:
        size = per_jvm
    chunks = [traces[i : i + size] for i in range(0, n, size)]
    cfg = cfg or "SPECIFICATION TraceSpec\nCHECK_DEADLOCK FALSE\n"

    def one(ix_chunk):
        ix, chunk = ix_chunk
        d = newdir(f"batch{ix}")
        f = d / "traces.json"
        f.write_text(json.dumps(_no_null(chunk if common is None else {"common": common, "cases": chunk})))
        r = tlc(module, cfg, env={"TRACE_FILE": str(f)}, workers=1, timeout=timeout, heap=heap, deque=deque, defs=defs, tag=f"{module}.b{ix}")
        return ix, chunk, r

    verdicts: dict = {}
    st = {"states": 0, "transitions": 0, "jvms": len(chunks), "wall": 0.0}
    t0 = time.time()
    with ThreadPoolExecutor(max_workers=jobs) as ex:
        for ix, chunk, r in ex.map(one, list(enumerate(chunks))):
            if not r.ok:
                cause = [l for l in r.out.splitlines() if ("xception" in l or "Error" in l or "overflow" in l.lower()) and "error occurred when TLC was evaluating" not in l]
                raise Machinery(f"trace validation with {module} failed (rc={r.rc}):\n" + "\n".join(cause[:12]) + f"\n...\n{r.tail(60)}")
            st["states"] += r.distinct
            st["transitions"] += r.transitions
            local: dict = {}
            for v in r.verdicts():
                k, kind = v[0], v[1]
                clause = v[2] if len(v) > 2 else ""
                detail = v[3] if len(v) > 3 else ""
                tid = chunk[k - 1]["tid"]
                prev = local.get(tid)
                rank = {"ACCEPT": 3, "SKIP": 2, "REJECT": 1}[kind]
                if prev is None or rank > prev[3]:
                    local[tid] = (kind, clause, detail, rank)
            for t in chunk:
                if t["tid"] not in local:
                    raise Machinery(f"no verdict for trace {t['tid']} from {module}:\n{r.tail(30)}")
            verdicts.update({k: v[:3] for k, v in local.items()})
    st["wall"] = time.time() - t0
    return verdicts, st


# --------------------------------------------------------------------------
# known findings
# --------------------------------------------------------------------------
def load_findings(prop: str) -> list[dict]:
    p = VERIF / "known_findings.json"
    if not p.exists():
        return []
    data = json.loads(p.read_text())
    return [f for f in data.get("findings", []) if f["property"] == prop and f.get("status", "open") == "open"]


# --------------------------------------------------------------------------
# evidence + result reporting
# --------------------------------------------------------------------------
class Report:
    """Collects what a check did and turns it into exit code + evidence file."""

    def __init__(self, prop: str, tier: str, seed: int, level: str = "model_checking"):
        self.prop, self.tier, self.seed, self.level = prop, tier, seed, level
        self.t0 = time.time()
        self.states = 0
        self.transitions = 0
        self.traces = 0
        self.samples: list = []
        self.violations: list[dict] = []
        self.known: dict[str, int] = {}
        self.skips: dict[str, int] = {}
        self.accepts = 0
        self.notes: list[str] = []
        self.assumptions: list[str] = []
        self.runs: list[dict] = []
        self.extra: dict = {}
        self.findings = load_findings(prop)
        self.matchers: dict = {}
        self.clauses: dict[str, int] = {}

    # -- model checking runs
    def add_mc(self, name: str, res: TlcResult, **kw):
        self.states += res.distinct
        self.transitions += res.transitions
        d = {"run": name, "distinct_states": res.distinct, "states_generated": res.generated, "initial": res.initial, "wall_s": round(res.wall, 2)}
        d.update(kw)
        self.runs.append(d)

    def add_stats(self, name: str, st: dict, n: int):
        self.states += st["states"]
        self.transitions += st["transitions"]
        self.traces += n
        self.runs.append({"run": name, "traces": n, "distinct_states": st["states"], "jvms": st["jvms"], "wall_s": round(st["wall"], 2)})

    def sample(self, s, limit=6):
        if len(self.samples) < limit:
            self.samples.append(s)

    # -- verdict handling
    def settle(self, traces: list[dict], verdicts: dict, describe=None):
        """Fold TLC's verdicts for recorded traces into the report."""
        describe = describe or (lambda t: t.get("desc") or {k: t[k] for k in list(t)[:6]})
        for t in traces:
            kind, clause, detail = verdicts[t["tid"]]
            if kind == "ACCEPT":
                self.accepts += 1
            elif kind == "SKIP":
                self.skips[clause] = self.skips.get(clause, 0) + 1
            else:
                self.reject(t, clause, detail)

    def reject(self, trace: dict, clause: str, detail=""):
        for f in self.findings:
            m = self.matchers.get(f["matcher"])
            if m is None:
                raise Machinery(f"known finding {f['id']} names unknown matcher {f['matcher']}")
            if m(trace, clause):
                self.known[f["id"]] = self.known.get(f["id"], 0) + 1
                return
        self.violations.append({"trace": trace, "clause": clause, "detail": detail})
        self.clauses[clause] = self.clauses.get(clause, 0) + 1

    def finish(self) -> int:
        wall = time.time() - self.t0
        EVIDENCE.mkdir(exist_ok=True)
        for f in self.findings:
            if self.known.get(f["id"]):
                print(f"KNOWN-FINDING: property={self.prop} {f['id']}: {f['what']} (seen {self.known[f['id']]}x this run)")
        rc = 0
        replay_paths = []
        if self.violations:
            rc = 1
            d = REPLAY / self.prop
            d.mkdir(parents=True, exist_ok=True)
            seen = set()
            for i, v in enumerate(self.violations[:20]):
                key = (v["clause"], v["trace"].get("kernel"), v["trace"].get("family"))
                p = d / f"{self.tier}-{self.seed}-{i}.json"
                p.write_text(json.dumps(v, indent=1, default=str))
                replay_paths.append(str(p))
                if key in seen and i > 3:
                    continue
                seen.add(key)
                print(f"VIOLATION property={self.prop} replay={p}  clause={v['clause']} {str(v.get('detail'))[:200]}")
            if len(self.violations) > 20:
                print(f"... {len(self.violations) - 20} further violations not written")
        if self.clauses:
            print(f"[{self.prop}] rejected clauses: {self.clauses}")
        total = self.accepts + sum(self.skips.values()) + len(self.violations) + sum(self.known.values())
        cov = {
            "states": max(self.states, 1),
            "transitions": max(self.transitions, 1),
            "traces_validated_against_impl": self.traces,
            "samples": self.samples or ["(none)"],
            "evaluations": max(total, 1),
            "accepted": self.accepts,
            "skipped": self.skips,
            "known_findings_seen": self.known,
            "rejected_clauses": self.clauses,
            "tlc_runs": self.runs,
            "notes": self.notes,
        }
        cov.update(self.extra)
        ev = {
            "property_id": self.prop,
            "tier": self.tier,
            "seed": self.seed,
            "level": self.level,
            "coverage": cov,
            "assumptions": self.assumptions,
            "wall_s": round(wall, 2),
            "violations": len(self.violations),
        }
        evdir = EVIDENCE if self.prop.startswith("C") else EVIDENCE / "extra"     # X..: coverage beyond the listed properties
        evdir.mkdir(parents=True, exist_ok=True)
        (evdir / f"{self.prop}.json").write_text(json.dumps(ev, indent=1, default=str) + "\n")
        print(
            f"[{self.prop}] tier={self.tier} seed={self.seed} states={self.states} traces={self.traces} "
            f"accept={self.accepts} skip={sum(self.skips.values())} known={sum(self.known.values())} "
            f"violations={len(self.violations)} wall={wall:.1f}s"
        )
        return rc


class Watch:
    """remembers input arrays of a call; changed() tells whether the callee wrote into them"""

    def __init__(self, *arrays):
        import numpy as np

        self.np = np
        self.arrays = [a for a in arrays if isinstance(a, np.ndarray)]
        self.copies = [a.copy() for a in self.arrays]

    def changed(self):
        return any(not self.np.array_equal(a, b, equal_nan=(a.dtype.kind == "f")) for a, b in zip(self.arrays, self.copies))


def assert_repo():
    """the code under observation must be /repo's working tree"""
    sys.path.insert(0, str(REPO))
    import hdc.algo

    f = Path(hdc.algo.__file__).resolve()
    if REPO.resolve() not in f.parents:
        raise Machinery(f"hdc.algo imported from {f}, not from {REPO}")
