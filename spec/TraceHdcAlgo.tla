----------------------------- MODULE TraceHdcAlgo -----------------------------
(* a recorded session: after every accessor call the set of filled lazycompile cells *)
EXTENDS HdcAlgo, Json, IOUtils
Traces == JsonDeserialize(IOEnv.TRACE_FILE)
VARIABLES k, l, v
tvars == <<hvars, k, l, v>>
Ev == Traces[k].events[l]
SetOf(s) == {s[i] : i \in 1..Len(s)}
TInit == k \in 1..Len(Traces) /\ l = 1 /\ v = "run" /\ HInit
Finish(kind, clause, detail) == PrintT(<<"V", k, kind, clause, detail>>) /\ v' = kind /\ UNCHANGED <<hvars, k, l>>
Step ==
    /\ v = "run" /\ l <= Len(Traces[k].events)
    /\ LET want == Expected(Ev.op, Ev.facts) IN
       IF Ev.outcome # want THEN Finish("REJECT", IF want = "ok" THEN "ValidCallAccepted" ELSE "DocumentedException", Ev.op \o " at " \o ToString(l))
       ELSE /\ Invoke(Ev.op, Ev.facts)
            /\ IF SetOf(Ev.compiled) = compiled' THEN l' = l + 1 /\ UNCHANGED <<k, v>>
               ELSE PrintT(<<"V", k, "REJECT", IF want = "ok" THEN "DispatchesToItsKernels" ELSE "RejectedCallCompilesNothing", Ev.op \o " at " \o ToString(l) \o ": " \o ToString(SetOf(Ev.compiled))>>)
                    /\ v' = "REJECT" /\ UNCHANGED <<k, l>>
Accept == v = "run" /\ l = Len(Traces[k].events) + 1 /\ Finish("ACCEPT", "", ToString(Cardinality(compiled)))
TraceNext == Step \/ Accept
TraceSpec == TInit /\ [][TraceNext]_tvars
Inv == OnlyLazyKernels
=============================================================================
