----------------------------- MODULE TraceBlocked -----------------------------
(***************************************************************************)
(* One accessor operation on one cube: the eager (in-memory) result and a   *)
(* list of runs under other configurations (dask chunkings, schedulers,     *)
(* dimension orders, permuted pixels, thread counts).  Per-pixel results    *)
(* arrive as digests ordered by the base cube's pixel order (the harness    *)
(* undoes permutations), so pixel locality is equality position by position.*)
(***************************************************************************)
EXTENDS Integers, Sequences, Json, IOUtils, TLC
Cases == JsonDeserialize(IOEnv.TRACE_FILE)
VARIABLES k, v

RunClause(base, r) ==
    IF r.timechunked
    THEN (IF r.outcome = "ok" /\ r.px # base.px THEN "RefuseOrEqual" ELSE "ok")
    ELSE IF r.outcome # "ok" THEN "NoFailure"
    ELSE IF r.px # base.px THEN (IF r.kind = "perm" THEN "PixelLocal" ELSE IF r.kind = "threads" THEN "ThreadCountInvariant" ELSE "SameValues")
    ELSE IF r.dtype # base.dtype THEN "SameDtype"
    ELSE IF "adtype" \in DOMAIN r /\ r.adtype # r.dtype THEN "AnnouncedDtype"   \* a lazy result computes to the dtype it announces
    ELSE IF r.kind # "dimorder" /\ r.dims # base.dims THEN "SameDims"
    \* another stored layout: the same dimensions per variable, in whatever order ("dimsets": per variable, sorted)
    ELSE IF r.kind = "dimorder" /\ "dimsets" \in DOMAIN r /\ r.dimsets # base.dimsets THEN "SameDims"
    ELSE IF r.kind = "dimorder" /\ "dimsets" \notin DOMAIN r /\ {r.dims[i] : i \in 1..Len(r.dims)} # {base.dims[i] : i \in 1..Len(base.dims)} THEN "SameDims"
    ELSE IF r.coords # base.coords THEN "SameCoords"
    ELSE "ok"

Verdict(c) ==
    IF c.base.outcome # "ok" THEN <<"SKIP", "eager-run-failed", c.base.outcome>>
    ELSE LET bad == {i \in 1..Len(c.runs) : RunClause(c.base, c.runs[i]) # "ok"} IN
         IF bad = {} THEN <<"ACCEPT", "", ToString(Len(c.runs))>>
         ELSE LET i == CHOOSE i \in bad : \A o \in bad : i <= o IN <<"REJECT", RunClause(c.base, c.runs[i]), c.runs[i].cfg>>

\* real, unscheduled races on the first call of a lazily compiled kernel
Race(c) == IF c.exceptions # <<>> THEN <<"REJECT", "NoException", c.exceptions[1]>>
           ELSE IF \E i \in 1..Len(c.digests) : c.digests[i] # c.expected THEN <<"REJECT", "ResultIsF", c.kernel>>
           ELSE <<"ACCEPT", "", c.kernel>>

Init == k \in 1..Len(Cases) /\ v = "todo"
Next == /\ v = "todo"
        /\ LET r == IF Cases[k].op = "race" THEN Race(Cases[k]) ELSE Verdict(Cases[k]) IN
              PrintT(<<"V", k, r[1], r[2], r[3]>>) /\ v' = r[1]
        /\ UNCHANGED k
TraceSpec == Init /\ [][Next]_<<k, v>>
=============================================================================
