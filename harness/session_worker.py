"""fresh subprocess: a session of accessor calls; after each call the set of lazycompile cells that are filled"""
import json
import random
import sys


def lazy_wrappers():
    import importlib

    from hdc.algo import ops
    from hdc.algo.ops import stats, zonal

    w = {n: getattr(ops, n) for n in ("ws2dgu", "ws2dpgu", "ws2doptv", "ws2doptvp", "ws2doptvplc", "ws2dwcv", "ws2dwcvp", "tinterpolate", "lroo", "autocorr", "autocorr_tyx")}
    w.update({n: getattr(stats, n) for n in ("gammastd_grp", "mean_grp", "rolling_sum", "_mann_kendall_trend_gu", "_mann_kendall_trend_gu_nd")})
    w["do_mean"] = zonal.do_mean
    w["ws2doptvplc_tyx"] = importlib.import_module("hdc.algo.ops.ws2doptvplc").ws2doptvplc_tyx
    return w


def filled(w):
    out = []
    for name, f in w.items():
        code = f.__code__
        for var, cell in zip(code.co_freevars, f.__closure__ or ()):
            if var == "inner_decorated":
                try:
                    if cell.cell_contents is not None:
                        out.append(name)
                except ValueError:
                    pass
    return sorted(out)


def main():
    repo, seed, ncalls = sys.argv[1], int(sys.argv[2]), int(sys.argv[3])
    sys.path.insert(0, repo)
    from harness.props import x01

    rng = random.Random(seed)
    w = lazy_wrappers()
    ops_ = ["whits", "whitsvc", "whitswcv", "whitint", "spi", "croo", "lroo", "autocorr", "mktrend", "mean_grp", "rolling_sum", "zonal_mean"]
    events = []
    plan = []
    for op in ops_:
        plan.append((op, {}))
    for _ in range(max(0, ncalls - len(ops_))):
        op = rng.choice(ops_)
        flips = rng.sample(["hastime", "p", "lc", "groups", "nodataattr", "timefirst", "int16", "nodataarg"], rng.randint(0, 2))
        plan.append((op, {k: None for k in flips}))
    rng.shuffle(plan)
    for op, flips in plan:
        f = dict(x01.GOOD, timefirst=True, p=False)
        for k in flips:
            f[k] = not f[k]
        if op == "whitsvc" and f["lc"]:
            f["int16"] = True
        x01.PVAL[0] = rng.choice([0.5, 0.9, 0.5])
        try:
            x01.call(op, f)
            outcome = "ok"
        except Exception as ex:
            outcome = type(ex).__name__
        events.append({"op": op, "facts": f, "outcome": outcome, "compiled": filled(w)})
    print("SESSION" + json.dumps(events))


if __name__ == "__main__":
    main()
