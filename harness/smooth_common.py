"""shared by C02..C06: run one smoother variant (compiled kernel or accessor) and log, from the
kernel's Python source, the solver calls that resolve envelope ties (per-pass patterns)"""
from __future__ import annotations

import numpy as np

from . import core, interp

VARIANTS = {
    "gu": ("ws2dgu", False), "pgu": ("ws2dpgu", True), "v": ("ws2doptv", False), "vp": ("ws2doptvp", True),
    "vplc": ("ws2doptvplc", True), "wcv": ("ws2dwcv", False), "wcvp": ("ws2dwcvp", True),
}


def fl(x):
    return core.rat(float(x))


def to_arr(ys, dtype="float64"):
    def cv(s):
        if s == "nan":
            return np.nan
        if s == "inf":
            return np.inf
        if s == "-inf":
            return -np.inf
        return float(core.unrat(s))
    return np.array([cv(s) for s in ys], dtype=dtype)


def kernel_args(c):
    v = c["variant"]
    y = to_arr(c["y"], "int16" if v == "vplc" else "float64")
    nd = float(core.unrat(c["nd"])) if c["nd"] != "nan" else np.nan
    p = float(core.unrat(c["p"])) if c.get("hasp") else None
    grid = np.array([float(core.unrat(g)) for g in c.get("grid", [])], dtype="float64")
    if v == "gu":
        return (y, float(core.unrat(c["lam"])), nd)
    if v == "pgu":
        return (y, float(core.unrat(c["lam"])), nd, p)
    if v == "v":
        return (y, nd, grid)
    if v == "vp":
        return (y, nd, p, grid)
    if v == "vplc":
        return (y, nd, p, float(core.unrat(c["lc"])) if c["lc"] != "nan" else np.nan)
    if v == "wcv":
        return (y, nd, grid, bool(c["robust"]))
    if v == "wcvp":
        return (y, nd, p, grid, bool(c["robust"]))
    raise KeyError(v)


def patterns_of(calls, y, p, resets=()):
    """per ws2d call: the envelope pattern its weights reveal (1 = weight p); for p = 1/2 the
    weights reveal nothing and the decision is recomputed from the previous result (restarting
    from the zero curve at the call indices in `resets`)"""
    pats = []
    prev = np.zeros(len(y))
    for ci, (a, r) in enumerate(calls):
        if ci in resets:
            prev = np.zeros(len(y))
        ww = np.asarray(a[2], dtype="float64")
        if p is not None and float(p) != 0.5:
            pats.append([1 if (v != 0 and abs(v - float(p)) < abs(v - (1 - float(p)))) else 0 for v in ww])
        else:
            pats.append([int(b) for b in (np.asarray(y, dtype="float64") > prev)])
        prev = r
    return pats


def impl_module(c):
    """the module whose kernels are run: the lazily compiled ops package, or the legacy single-file module ops/whit.py (X08)"""
    if c.get("impl") == "legacy":
        from hdc.algo.ops import whit
        return whit
    from hdc.algo import ops
    return ops


def run_source(c):
    """interpreted source of the kernel with ws2d recorded -> (calls, outputs)"""
    ops = impl_module(c)

    name, _ = VARIANTS[c["variant"]]
    fn, recs = interp.rebuild(getattr(ops, name), record=("ws2d",))
    args = kernel_args(c)
    n = len(c["y"])
    out = np.zeros(n, dtype="float64")
    with np.errstate(all="ignore"):
        if c["variant"] in ("gu", "pgu"):
            fn(*args, out)
            lopt = None
        else:
            lo = np.zeros(1, dtype="float64")
            fn(*args, out, lo)
            lopt = float(lo[0])
    return (recs["ws2d"].calls if "ws2d" in recs else []), out, lopt


def execute(c):
    """compiled run (+ accessor if asked) and hints from the source; fills out, lopt, pats, fhints"""
    ops = impl_module(c)

    name, hasp = VARIANTS[c["variant"]]
    c["hasp"] = hasp
    args = kernel_args(c)
    api = c.get("api", "kernel")
    before = [a.copy() if isinstance(a, np.ndarray) else a for a in args]
    if api == "kernel":
        res = getattr(ops, name)(*args)
        if c["variant"] in ("gu", "pgu"):
            out, lopt = res, None
        else:
            out, lopt = res
            lopt = float(np.asarray(lopt).reshape(-1)[0])
        sg = None
    else:
        out, lopt, sg = run_accessor(c, args)
    # the caller's arrays must come back untouched (bitwise, NaN-aware)
    c["inputs_modified"] = any(isinstance(a, np.ndarray) and not np.array_equal(a, b, equal_nan=True) for a, b in zip(args, before))
    c["out"] = [int(v) for v in np.asarray(out).reshape(-1).tolist()]
    c["lopt"] = "0" if lopt is None else fl(lopt) if np.isfinite(lopt) else "nan"
    c["sg"] = "" if sg is None else core.rat(sg)
    c["pats"], c["hints"], c["hinted_run"] = [], [], False
    if hasp:
        try:
            calls, _o, _l = run_source(c)
        except Exception:
            calls = []
        if calls:
            c["hinted_run"] = True
            y = args[0]
            p = args[3] if c["variant"] == "pgu" else args[2]
            lams = [float(a[1]) for a, _ in calls]
            jfin = len(lams) - 1
            while jfin > 0 and lams[jfin - 1] == lams[-1]:
                jfin -= 1
            jfin = max(jfin, len(lams) - 11)
            pt = patterns_of(calls, y, p, resets=(0, jfin))
            if c["variant"] == "pgu":
                c["hints"] = pt[:-1]
            elif c["variant"] in ("vp", "vplc"):
                # blocks of equal lambda: one per grid value, then the final fit
                blocks, cur = [], [0]
                for i in range(1, len(lams)):
                    if lams[i] == lams[i - 1]:
                        cur.append(i)
                    else:
                        blocks.append(cur)
                        cur = [i]
                blocks.append(cur)
                ngrid = len(c["grid"]) if c["variant"] == "vp" else 16
                c["swept"] = [fl(np.log10(lams[b[0]])) for b in blocks[:-1]]
                if len(blocks) == ngrid + 1:
                    c["pats"] = [pt[b[-1]] for b in blocks[:ngrid]]
                    c["hints"] = [pt[i] for i in blocks[-1][:-1]]
            elif c["variant"] == "wcvp" and not c.get("robust"):
                # the asymmetric passes: trailing calls at lambda = lopt whose non-zero weights are p / 1-p
                def asym(ix):
                    ww = np.asarray(calls[ix][0][2], dtype="float64")
                    nz = ww[ww != 0]
                    return lams[ix] == lams[-1] and bool(np.all((np.abs(nz - float(p)) < 1e-12) | (np.abs(nz - (1 - float(p))) < 1e-12)))
                j = len(lams)
                while j > 0 and asym(j - 1) and len(lams) - j < 11:
                    j -= 1
                pt = patterns_of(calls, y, p, resets=(0, j))
                c["hints"] = [pt[i] for i in range(j, len(lams) - 1)]
    return c


def run_accessor(c, args):
    import xarray as xr

    v = c["variant"]
    y = args[0]
    dims = c.get("dims", ["time", "y", "x"])
    shape = [1, 1, 1]
    shape[dims.index("time")] = len(y)
    nd = args[1] if v not in ("gu", "pgu") else args[2]
    # the smoothers take nodata as an argument; the cube carries an unrelated (conflicting) nodata attribute,
    # equal to one of its valid observations: the argument, also a falsy one, is what counts
    valid = [float(t) for t in y.tolist() if np.isfinite(t) and t != nd]
    attrs = {"nodata": (valid[0] if valid else float(nd) + 1.0 if np.isfinite(nd) else -1.0)}
    pix = (0, 0)
    if v == "vplc":
        # per-pixel parameter raster: the pixel sits at (y=0, x=1) of a 2 x 2 cube whose mirror pixel (1, 0) carries an lc of
        # the OTHER grid class, and the raster is handed over in (x, y) order - it must reach the pixel by dimension NAME
        pix = (0, 1)
        cube = np.empty((len(y), 2, 2), dtype=y.dtype)
        for i in range(2):
            for j in range(2):
                cube[:, i, j] = y if (i, j) == pix else np.where(y == nd, nd, np.roll(y, 1 + i + 2 * j))
        da = xr.DataArray(cube, dims=("time", "y", "x"), attrs=attrs).transpose(*dims)
        lcv = args[3]
        other = 0.1 if (np.isfinite(lcv) and lcv > 0.5) else 0.9
        lcr = np.array([[other, lcv], [other, 0.5]], dtype="float64")          # [y, x]
        lc_raster = xr.DataArray(lcr.T.copy(), dims=("x", "y"))
    else:
        da = xr.DataArray(y.reshape(shape), dims=dims, attrs=attrs)
    if c.get("dask"):
        da = da.chunk({d: 1 for d in dims if d != "time"})
    if v in ("v", "vp"):
        r = da.hdc.whit.whitsvc(nd, srange=args[-1], p=(args[2] if v == "vp" else None))
    elif v == "vplc":
        r = da.hdc.whit.whitsvc(nd, lc=lc_raster, p=args[2])
    elif v == "wcv":
        r = da.hdc.whit.whitswcv(nd, srange=args[2], robust=args[3])
    elif v == "wcvp":
        r = da.hdc.whit.whitswcv(nd, srange=args[3], p=args[2], robust=args[4])
    else:
        raise KeyError(v)
    band = np.asarray(r["band"].transpose("y", "x", "time"))[pix[0], pix[1]].reshape(-1)
    sg = np.asarray(r["sgrid"].transpose("y", "x"))[pix[0], pix[1]]
    ok = str(r["band"].dtype) == "int16" and str(r["sgrid"].dtype) == "float32"
    with np.errstate(over="ignore"):
        lopt = float(10.0 ** np.float64(sg)) if np.isfinite(sg) else 0.0
    c["sg_only"] = True   # through the accessor lambda is only visible as float32 log10
    return (band if ok else band * 0 - 31000), lopt, sg


def tla_case(c):
    keys = ("tid", "op", "variant", "swept", "inmod", "fam", "level", "height", "line", "y", "nd", "lam", "grid", "lc", "hasp", "p", "robust", "out", "lopt", "pats", "hints", "hinted", "sg", "sgonly")
    d = {k: c[k] for k in keys if k in c}
    d.setdefault("lam", "0")
    d.setdefault("swept", [])
    d.setdefault("grid", [])
    d.setdefault("lc", "nan")
    d.setdefault("p", "0")
    d.setdefault("robust", False)
    d.setdefault("hinted", False)
    d.setdefault("sg", "")
    d["sgonly"] = bool(c.get("sg_only"))
    d["inmod"] = bool(c.get("inputs_modified"))
    return d
