--------------------------- MODULE MCMannKendall ---------------------------
(* all value patterns of length 2..MaxLen over 1..MaxLen (covers every weak  *)
(* order): loops = definitions, and the symmetries C10 states                *)
EXTENDS MannKendall
CONSTANT MaxLen
VARIABLES inp, ok
\* rank patterns: the values used are exactly 1..k for some k (one representative per weak order)
IsRankPattern(X) == \A a \in 1..Len(X) : (\E i \in 1..Len(X) : X[i] = a) \/ (\A i \in 1..Len(X) : X[i] < a)
Init == ok = "todo" /\ \E n \in 2..MaxLen : \E X \in [1..n -> 1..n] : IsRankPattern(X) /\ inp = X
AsRat(X) == [i \in 1..Len(X) |-> RInt(X[i])]
Map(X, G(_)) == [i \in 1..Len(X) |-> G(X[i])]
Rev(x) == [i \in 1..Len(x) |-> x[Len(x) + 1 - i]]
Eval(X) ==
    LET x == AsRat(X)
        mono == Map(X, LAMBDA a : RInt(a * a * a - 7))            \* strictly increasing on 1..n
        neg  == Map(X, LAMBDA a : RInt(-a))
        scl  == Map(X, LAMBDA a : RDiv(RInt(3 * a), "2"))
    IN  /\ ScoreAlgo(x) = Score(x) /\ ScoreAlgoLoop(x) = Score(x)
        /\ V18Algo(x) = V18(x)
        /\ SenSlopeSorted(x) = SenSlope(x)
        /\ TauFast(x) = TauA(x) /\ ZSqFast(x) = ZSq(x) /\ ZSignFast(x) = ZSign(x)
        /\ V18(x) >= 0 /\ (V18(x) = 0 => Score(x) = 0)
        /\ AbsI(Score(x)) <= NPairs(Len(x))
        \* rank-only dependence
        /\ Score(mono) = Score(x) /\ V18(mono) = V18(x)
        \* negation and time reversal flip the sign
        /\ Score(neg) = -Score(x) /\ V18(neg) = V18(x) /\ ZSq(neg) = ZSq(x)
        /\ Score(Rev(x)) = -Score(x) /\ V18(Rev(x)) = V18(x)
        \* Sen's slope scales linearly, flips under negation and reversal
        /\ SenSlope(scl) = RMul("3/2", SenSlope(x))
        /\ SenSlope(neg) = RNeg(SenSlope(x))
        /\ SenSlope(Rev(x)) = RNeg(SenSlope(x))
        \* tau and the sign of Z agree with S
        /\ RSign(TauA(x)) = ZSign(x)
Next == ok = "todo" /\ ok' = (IF Eval(inp) THEN "yes" ELSE "no") /\ UNCHANGED inp
Spec == Init /\ [][Next]_<<inp, ok>>
Holds == ok # "no"
=============================================================================
