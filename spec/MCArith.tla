------------------------------- MODULE MCArith -------------------------------
(* BigRat (Java override) against SmallRat (pure TLA+) on all pairs of small  *)
(* rationals: every operator, plus the field laws on BigRat itself.           *)
EXTENDS SmallRat, BigRat, TLC
CONSTANT N
VARIABLES a, b, ok

Str(x) == IF x[2] = 1 THEN ToString(x[1]) ELSE ToString(x[1]) \o "/" \o ToString(x[2])
Smalls == {SNorm(p, q) : p \in (-N)..N, q \in 1..N}

Agree(x, y) ==
    LET sx == Str(x)  sy == Str(y) IN
    /\ RAdd(sx, sy) = Str(SAdd(x, y))
    /\ RSub(sx, sy) = Str(SSub(x, y))
    /\ RMul(sx, sy) = Str(SMul(x, y))
    /\ (y[1] # 0 => RDiv(sx, sy) = Str(SDiv(x, y)))
    /\ RNeg(sx) = Str(SNeg(x)) /\ RAbs(sx) = Str(SAbs(x))
    /\ RCmp(sx, sy) = SCmp(x, y)
    /\ RLt(sx, sy) = SLt(x, y) /\ RLe(sx, sy) = SLe(x, y) /\ REq(sx, sy) = SEq(x, y)
    /\ RFloor(sx) = SFloor(x) /\ RRoundHE(sx) = SRoundHE(x)
    /\ RIsInt(sx) = (x[2] = 1)
    /\ RSign(sx) = (IF x[1] < 0 THEN -1 ELSE IF x[1] > 0 THEN 1 ELSE 0)
    \* field laws on the override itself
    /\ RAdd(sx, sy) = RAdd(sy, sx) /\ RMul(sx, sy) = RMul(sy, sx)
    /\ RSub(RAdd(sx, sy), sy) = sx
    /\ (y[1] # 0 => RDiv(RMul(sx, sy), sy) = sx)
    /\ RMul(sx, RAdd(sy, "1/3")) = RAdd(RMul(sx, sy), RMul(sx, "1/3"))
    /\ RSum(<<sx, sy, sx>>) = RAdd(RAdd(sx, sy), sx)
    /\ RSort(<<sx, sy, "0", sx>>) = SortSeq(<<sx, sy, "0", sx>>, RLt)
    /\ RCanon(ToString(2 * x[1]) \o "/" \o ToString(2 * x[2])) = sx
    \* rounding to a binary mantissa: idempotent, monotone bracket, exact on dyadics
    /\ RRoundMant(RRoundMant(sx, 24), 24) = RRoundMant(sx, 24)
    /\ RLe(RAbs(RSub(RRoundMant(sx, 24), sx)), RMul(RAbs(sx), "1/16777216"))
    /\ RRoundMant(RInt(x[1]), 24) = RInt(x[1])
    \* the real functions: defining relations within the stated error
    /\ (x[1] > 0 => RWithin(RSq(RSqrt(sx)), sx, RMul(sx, "1/1000000000000")))
    /\ (x[1] > 0 => RWithin(RPow10(RLog10(sx)), sx, RMul(sx, "1/1000000000000")))
    /\ ((x[1] > 0 /\ y[1] > 0 /\ SLt(x, y)) => RLt(RLn(sx), RLn(sy)))

Init == a \in Smalls /\ b \in Smalls /\ ok = "todo"
Next == ok = "todo" /\ ok' = (IF Agree(a, b) THEN "yes" ELSE "no") /\ UNCHANGED <<a, b>>
Spec == Init /\ [][Next]_<<a, b, ok>>
Holds == ok # "no"
=============================================================================
