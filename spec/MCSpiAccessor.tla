---------------------------- MODULE MCSpiAccessor ----------------------------
EXTENDS SpiAccessor
CONSTANTS MaxLen, TMax
VARIABLES inp, ok
Sorted(t) == \A i \in 1..(Len(t) - 1) : t[i] < t[i + 1]
Init == ok = "todo" /\ \E n \in 2..MaxLen : \E tm \in [1..n -> 0..TMax] : \E b \in (-1)..(TMax + 1) : \E e \in (-1)..(TMax + 1) :
            \E ng \in 1..3 : \E gr \in [1..n -> 0..(ng - 1)] :
               Sorted(tm) /\ (\A g \in 0..(ng - 1) : \E i \in 1..n : gr[i] = g) /\ inp = <<tm, b, e, gr, ng>>
Eval(i) ==
    LET tm == i[1]  bb == i[2]  ee == i[3]  gr == i[4]  ng == i[5]
        b == Begin(tm, bb)  e == End(tm, ee)
        x == [j \in 1..Len(tm) |-> 100 + j]
        cal == [g \in 1..ng |-> CalIdxAlgo(SubAxis(tm, gr, g - 1), b, e)]
    IN  \* binary search = counting definition; the index pair delimits exactly the window
        /\ CalIdxAlgo(tm, b, e) = CalIdx(tm, b, e)
        /\ LET ci == CalIdx(tm, b, e) IN
             (ci[1] < ci[2] => WindowPos(tm, b, e) = (ci[1] + 1)..ci[2]) /\ (ci[1] >= ci[2] => WindowPos(tm, b, e) = {})
        \* the code's validity tests = the contract's MustRaise
        /\ LET bad1 == b > tm[Len(tm)]  bad2 == e < tm[1]
               badU == LET ci == CalIdx(tm, b, e) IN ci[1] >= ci[2] \/ ci[2] - ci[1] <= 1
               badG == \E g \in 1..ng : cal[g][1] >= cal[g][2] \/ cal[g][2] - cal[g][1] <= 1
           IN  /\ MustRaise(tm, bb, ee, <<>>) = (bad1 \/ bad2 \/ badU)
               /\ MustRaise(tm, bb, ee, gr) = (bad1 \/ bad2 \/ badG)
        \* scatter/gather = per-group decomposition; a single group = the ungrouped call
        /\ GroupedAlgo(x, gr, ng, cal) = Decomposed(x, tm, gr, b, e)
        /\ (ng = 1 => GroupedAlgo(x, gr, ng, cal) = Spi(x, CalIdx(tm, b, e)[1], CalIdx(tm, b, e)[2]))
Next == ok = "todo" /\ ok' = (IF Eval(inp) THEN "yes" ELSE "no") /\ UNCHANGED inp
Spec == Init /\ [][Next]_<<inp, ok>>
Holds == ok # "no"
=============================================================================
