#!/bin/sh
# build the Java arithmetic override (offline; JDK 17 is pre-installed)
set -e
cd "$(dirname "$0")/.."
mkdir -p build/classes
javac -nowarn -cp /opt/veriftools/tla/tla2tools.jar -d build/classes java/tlc2/module/BigRat.java
