----------------------------- MODULE MCAccessors -----------------------------
(* sanity of the decision table over all fact vectors: every operation has an outcome, *)
(* a call with every requirement met is accepted, and each requirement matters          *)
EXTENDS Accessors
Ops == {"whits", "whitsvc", "whitswcv", "whitint", "spi", "croo", "lroo", "autocorr", "mktrend", "mean_grp", "rolling_sum", "zonal_mean", "iteragg", "dekad"}
Facts == [hastime : BOOLEAN, sg : BOOLEAN, s : BOOLEAN, lc : BOOLEAN, p : BOOLEAN, srange : BOOLEAN, int16 : BOOLEAN,
          nodataarg : BOOLEAN, nodataattr : BOOLEAN, groups : BOOLEAN, groupslen : BOOLEAN, dataset : BOOLEAN]
Rest == [zonesda |-> TRUE, zonesnodata |-> TRUE, dimexists |-> TRUE, nzero |-> FALSE, datetime |-> TRUE]
VARIABLES inp, ok
Good == [hastime |-> TRUE, sg |-> TRUE, s |-> FALSE, lc |-> FALSE, p |-> TRUE, srange |-> TRUE, int16 |-> TRUE, nodataarg |-> TRUE,
         nodataattr |-> TRUE, groups |-> TRUE, groupslen |-> TRUE, dataset |-> FALSE] @@ Rest
Init == ok = "todo" /\ \E f \in Facts : \E op \in Ops : inp = <<op, f @@ Rest>>
Eval(i) == /\ Expected(i[1], i[2]) \in {"ok", "MissingTimeError", "ValueError", "NotImplementedError", "AssertionError", "TypeError"}
           /\ Expected(i[1], Good) = "ok"
           \* a missing time dimension is always reported first for the operations that need one
           /\ (i[1] \in {"whits", "whitsvc", "whitswcv", "whitint", "spi", "croo", "lroo", "mean_grp"} /\ ~i[2].hastime) => Expected(i[1], i[2]) = "MissingTimeError"
Next == ok = "todo" /\ ok' = (IF Eval(inp) THEN "yes" ELSE "no") /\ UNCHANGED inp
Spec == Init /\ [][Next]_<<inp, ok>>
Holds == ok # "no"
=============================================================================
