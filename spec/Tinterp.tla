------------------------------ MODULE Tinterp ------------------------------
(***************************************************************************)
(* hdc/algo/ops/tinterpolate.py and WhittakerSmoother.whitint.             *)
(* x: the n observations; tmpl: daily template (0/1 marks, as many marks   *)
(* as observations); labels: daily labels, contiguous runs.                *)
(***************************************************************************)
EXTENDS BigRat, Integers, Sequences, FiniteSets, TLC

F == INSTANCE Ws2dFn WITH Add <- RAdd, Sub <- RSub, Mul <- RMul, Div <- RDiv, FromInt <- RInt
P == INSTANCE Penalty WITH Add <- RAdd, Sub <- RSub, Mul <- RMul, Div <- RDiv, FromInt <- RInt
Lambda == "5902958103587057/590295810358705651712"      \* the float64 0.00001

Marks(tmpl) == {j \in 1..Len(tmpl) : tmpl[j] # 0}
Rank(S, j) == Cardinality({o \in S : o <= j})
\* CONTRACT: observations placed at the marked days (elsewhere the value is irrelevant: weight 0)
Scatter(x, tmpl) == LET M == Marks(tmpl) IN
    [j \in 1..Len(tmpl) |-> IF j \in M /\ Rank(M, j) <= Len(x) THEN x[Rank(M, j)] ELSE "0"]
WeightsOf(tmpl) == [j \in 1..Len(tmpl) |-> RInt(tmpl[j])]
Daily(x, tmpl) == F!Solve(Scatter(x, tmpl), WeightsOf(tmpl), Lambda)

\* maximal runs of equal labels, in order: <<first, last>>
RunStarts(lab) == {j \in 1..Len(lab) : j = 1 \/ lab[j] # lab[j - 1]}
RunOf(lab, r) == LET S == RunStarts(lab)
                     a == CHOOSE j \in S : Rank(S, j) = r
                     later == {j \in S : j > a}
                 IN  <<a, IF later = {} THEN Len(lab) ELSE (CHOOSE j \in later : \A o \in later : j <= o) - 1>>
NRuns(lab) == Cardinality(RunStarts(lab))
\* the same runs as one left-to-right pass (linear; used on long recorded series,
\* checked equal to RunOf in MCTinterp)
RECURSIVE RunsFrom(_, _, _, _)
RunsFrom(lab, j, a, acc) ==
    IF j > Len(lab) THEN Append(acc, <<a, Len(lab)>>)
    ELSE IF lab[j] = lab[j - 1] THEN RunsFrom(lab, j + 1, a, acc)
    ELSE RunsFrom(lab, j + 1, j, Append(acc, <<a, j - 1>>))
RunsList(lab) == RunsFrom(lab, 2, 1, <<>>)
MeanOver(z, ab) == RDiv(RSum(SubSeq(z, ab[1], ab[2])), RInt(ab[2] - ab[1] + 1))
PeriodMeans(z, lab) == LET R == RunsList(lab) IN [r \in 1..Len(R) |-> MeanOver(z, R[r])]

RoundTol(scale) == RAdd("1/2", RMul("1/1000000", RMax("1", scale)))
RECURSIVE MaxAbsRec(_, _)
MaxAbsRec(s, j) == IF j = 0 THEN "0" ELSE RMax(RAbs(s[j]), MaxAbsRec(s, j - 1))
OutOK(out, means, scale) ==
    /\ Len(out) = Len(means)
    /\ \A r \in 1..Len(means) : RLe(RAbs(RSub(RInt(out[r]), means[r])), RoundTol(scale))

\* a series linear in the day number: x_i = a + b * day(i).  Its daily curve is
\* that line (an affine sequence solves the normal equations for any weights:
\* Penalty!IsAffine), so the period means need no solve.
LineAt(a, b, j) == RAdd(a, RMul(b, RInt(j)))
IsLinearInDay(x, tmpl, a, b) == LET M == Marks(tmpl) IN
    \A j \in M : Rank(M, j) <= Len(x) => x[Rank(M, j)] = LineAt(a, b, j)
LineMeans(a, b, lab) == LET R == RunsList(lab) IN [r \in 1..Len(R) |->
    RAdd(a, RMul(b, RDiv(RInt(R[r][1] + R[r][2]), "2")))]

----------------------------------------------------------------------------
(* ALGORITHM: the cursor loops of the kernel (0-based indices as in the code) *)
\* first loop: for tt in temp: if tt != 0: temp[ii] = x[jj]; jj += 1; ii += 1
RECURSIVE ScatterLoop(_, _, _, _, _)
ScatterLoop(x, tmpl, ii, jj, acc) ==     \* acc: sequence built so far; returns <<temp, maxjj, ok>>
    IF ii >= Len(tmpl) THEN <<acc, jj, TRUE>>
    ELSE IF tmpl[ii + 1] # 0
         THEN IF jj >= Len(x) THEN <<acc, jj, FALSE>>          \* x[jj] out of bounds
              ELSE ScatterLoop(x, tmpl, ii + 1, jj + 1, Append(acc, x[jj + 1]))
         ELSE ScatterLoop(x, tmpl, ii + 1, jj, Append(acc, "0"))
\* second loop over labels[1:], cursor kk into out
RECURSIVE MeanLoop(_, _, _, _, _, _)
MeanLoop(z, lab, ii, jj, vv, acc) ==     \* returns the sequence of period means (before rounding)
    IF ii >= Len(lab) THEN Append(acc, RDiv(vv, RInt(jj)))
    ELSE IF lab[ii + 1] = lab[ii]
         THEN MeanLoop(z, lab, ii + 1, jj + 1, RAdd(vv, z[ii + 1]), acc)
         ELSE MeanLoop(z, lab, ii + 1, 1, z[ii + 1], Append(acc, RDiv(vv, RInt(jj))))
AlgoMeans(z, lab) == MeanLoop(z, lab, 1, 1, z[1], <<>>)
=============================================================================
