----------------------------- MODULE SpiAccessor -----------------------------
(***************************************************************************)
(* PixelAlgorithms.spi, utils.get_calibration_indices, utils.to_linspace   *)
(* and the grouped driver gammastd_grp (hdc/algo/accessors.py, utils.py,   *)
(* ops/stats.py).  Time stamps are integers (strictly increasing axis),    *)
(* None == -1 an absent argument.  The per-series index function is left   *)
(* uninterpreted: Spi(sub, start, stop) -- C09 is about WHICH samples are  *)
(* selected, not about the values (C07).                                   *)
(***************************************************************************)
EXTENDS Integers, Sequences, FiniteSets, TLC

None == -1
Max(S) == CHOOSE m \in S : \A o \in S : o <= m
Min(S) == CHOOSE m \in S : \A o \in S : m <= o

\* CONTRACT: calibration window
Begin(time, b) == IF b = None THEN time[1] ELSE b
End(time, e)   == IF e = None THEN time[Len(time)] ELSE e
InWindow(t, b, e) == b <= t /\ t <= e
\* positions (1-based) of the steps of `time` inside [b, e]
WindowPos(time, b, e) == {i \in 1..Len(time) : InWindow(time[i], b, e)}
\* the half-open index pair the kernels receive (0-based start, exclusive stop)
CalIdx(time, b, e) == <<Cardinality({i \in 1..Len(time) : time[i] < b}), Cardinality({i \in 1..Len(time) : time[i] <= e})>>
\* sub-axis of a group (positions in the full axis, increasing)
GroupPos(groups, g) == {i \in 1..Len(groups) : groups[i] = g}
RECURSIVE SeqOfSet(_)
SeqOfSet(S) == IF S = {} THEN <<>> ELSE <<Min(S)>> \o SeqOfSet(S \ {Min(S)})
SubAxis(time, groups, g) == LET ps == SeqOfSet(GroupPos(groups, g)) IN [k \in 1..Len(ps) |-> time[ps[k]]]
Labels(groups) == {groups[i] : i \in 1..Len(groups)}

\* which calls must raise ValueError
MustRaise(time, bb, ee, groups) ==
    LET b == Begin(time, bb)  e == End(time, ee) IN
    \/ b > time[Len(time)]                       \* begin after the last step
    \/ e < time[1]                               \* end before the first step
    \/ IF groups = <<>> THEN Cardinality(WindowPos(time, b, e)) <= 1     \* empty / reversed / a single step
       ELSE \E g \in Labels(groups) : Cardinality(WindowPos(SubAxis(time, groups, g), b, e)) <= 1
\* recorded attributes: first and last step inside the window (whole axis)
AttrBegin(time, bb, ee) == LET S == {time[i] : i \in {i \in 1..Len(time) : time[i] >= Begin(time, bb)}} IN Min(S)
AttrEnd(time, bb, ee)   == LET S == {time[i] : i \in {i \in 1..Len(time) : time[i] <= End(time, ee)}} IN Max(S)

----------------------------------------------------------------------------
\* ALGORITHM: searchsorted on a sorted axis (left / right) as binary search
RECURSIVE BSearch(_, _, _, _, _)
BSearch(a, val, lo, hi, side) ==      \* a: 1-based sorted; returns 0-based insertion index
    IF lo >= hi THEN lo
    ELSE LET mid == (lo + hi) \div 2 IN
         IF (side = "left" /\ a[mid + 1] < val) \/ (side = "right" /\ a[mid + 1] <= val)
         THEN BSearch(a, val, mid + 1, hi, side) ELSE BSearch(a, val, lo, mid, side)
CalIdxAlgo(time, b, e) == <<BSearch(time, b, 0, Len(time), "left"), BSearch(time, e, 0, Len(time), "right")>>

\* ALGORITHM: gammastd_grp's scatter / gather over groups 0..ng-1, Spi uninterpreted
Spi(sub, st, sp) == [k \in 1..Len(sub) |-> <<"spi", sub, st, sp, k>>]
GroupedAlgo(x, groups, ng, cal) ==      \* cal[g+1] = <<start, stop>>
    [i \in 1..Len(x) |->
        LET g == groups[i]
            ps == SeqOfSet(GroupPos(groups, g))
            sub == [k \in 1..Len(ps) |-> x[ps[k]]]
            rank == Cardinality({j \in GroupPos(groups, g) : j <= i})
        IN  IF g \in 0..(ng - 1) THEN Spi(sub, cal[g + 1][1], cal[g + 1][2])[rank] ELSE <<"unwritten">>]
\* CONTRACT: per group, the ungrouped index of the group's sub-series under the same window
Decomposed(x, time, groups, b, e) ==
    [i \in 1..Len(x) |->
        LET g == groups[i]
            ps == SeqOfSet(GroupPos(groups, g))
            sub == [k \in 1..Len(ps) |-> x[ps[k]]]
            ci == CalIdx(SubAxis(time, groups, g), b, e)
            rank == Cardinality({j \in GroupPos(groups, g) : j <= i})
        IN  Spi(sub, ci[1], ci[2])[rank]]
=============================================================================
