"""X08 (extra) - the legacy single-file module hdc/algo/ops/whit.py as a SECOND implementation of the smoother contracts.

whit.py carries older copies of ws2dgu / ws2dpgu / ws2doptv / ws2doptvp / ws2doptvplc / ws2dwcv / ws2dwcvp (eagerly compiled,
not behind lazycompile, not imported by the package).  The same TraceSmooth clauses that decide C03 / C04 / C05 for the ops
package are evaluated on recorded calls of the legacy kernels:

 (1) refinement leg: on in-claim inputs (finite placeholders, no robust mode, lc not NaN) every legacy call must be a behaviour
     of the specification (FixedVerdict / VCurveVerdict / GcvVerdict) - a REJECT is reported as `VIOLATION property=X08`;
 (2) deviation leg: whit.py was not touched by the fix: commits of section 9, so it still shows the pinned defects.  The input
     families that exposed them (NaN / inf cells, lc = NaN, robust GCV on constant series with gaps) are run on the legacy
     kernels and TLC must REJECT at least one case of every family (`LegacyNaNPoison`, `LegacyLcNaNGrid`, `LegacyRobustMad`,
     and `LegacyLambdaZero`: the legacy fixed-lambda kernels solve with lambda = 0 instead of passing the series through):
     real code serving as the negative control of the clauses that found those defects.  A family nobody rejects is a
     machinery failure (the clause went blind), not a verdict about the code.
"""
from __future__ import annotations

import json
import random

import numpy as np

from .. import core, smooth_common as sc
from . import c04, c05
from .c03 import gaps, series

MODULE = "TraceSmooth"


def legacy(c):
    c = {k: v for k, v in c.items() if k not in ("dims", "dask", "tid")}
    c["api"] = "kernel"
    c["impl"] = "legacy"
    return c


def gen_cases(tier, seed):
    rng = random.Random(seed * 69069 + 88)
    quick = tier == "quick"
    cases, dev = [], []

    def add(lst, c):
        c["tid"] = len(cases) + len(dev) + 1
        lst.append(c)

    # (1) refinement leg: the C04 / C05 generators, kernels only, in-claim for the legacy module
    for c in c04.gen_cases(tier, seed) + c05.gen_cases(tier, seed):
        if c.get("robust") or c.get("op") == "robustfam" or c.get("lc") == "nan":
            continue
        add(cases, legacy(c))
    # fixed-lambda kernels
    for _ in range(60 if quick else 500):
        n = rng.choice([4, 5, 6, 8, 12, 16, 24])
        nd = rng.choice([-3000, 0, 32767, 255])
        hasp = rng.random() < 0.5
        y = gaps(rng, series(rng, n), nd)
        c = {"op": "fixed", "variant": "pgu" if hasp else "gu", "y": [str(v) for v in y], "nd": str(nd),
             "lam": sc.fl(rng.choice([0.0, 1e-3, 0.5, 1.0, 10.0, 100.0, 1e3, 1e5, 10 ** rng.uniform(-3, 5)]))}
        if hasp:
            c["p"] = sc.fl(rng.choice([0.1, 0.5, 0.9, 0.95, round(rng.uniform(0.02, 0.98), 2)]))
        if c["lam"] == "0":               # the legacy kernels have no lambda = 0 pass-through (gaps come back as 0 / garbage)
            c["family"] = "LegacyLambdaZero"
            add(dev, legacy(c))
        else:
            add(cases, legacy(c))
    # (2) deviation leg
    for _ in range(6 if quick else 30):          # NaN / inf cells in the fixed-lambda and GCV kernels
        n = rng.choice([8, 10, 12])
        y = [str(v) for v in gaps(rng, series(rng, n, "season"), -3000, 0.1)]
        y[rng.randrange(n)] = rng.choice(["nan", "inf", "-inf"])
        v = rng.choice(["gu", "wcv"])
        c = {"variant": v, "y": y, "nd": "-3000", "family": "LegacyNaNPoison"}
        if v == "gu":
            c.update(op="fixed", lam=sc.fl(10.0))
        else:
            c.update(op="gcv", grid=[sc.fl(-1.0 + 0.5 * k) for k in range(6)], robust=False)
        add(dev, legacy(c))
    for _ in range(4 if quick else 20):          # lc = NaN must sweep the 0..3 grid
        y = gaps(rng, series(rng, 12, "season"), -3000, 0.1)
        add(dev, legacy({"op": "vcurve", "variant": "vplc", "y": [str(v) for v in y], "nd": "-3000", "lc": "nan", "p": sc.fl(0.9), "family": "LegacyLcNaNGrid"}))
    for _ in range(6 if quick else 30):          # robust GCV: constant series with gaps under two placeholders
        n, L = rng.choice([8, 12, 20]), rng.randint(200, 5000)
        miss = sorted(rng.sample(range(n), rng.randint(1, n - 6)))
        for enc, nd in (("a", -3000), ("b", 30000)):
            yy = [nd if j in miss else L for j in range(n)]
            add(dev, legacy({"op": "robustfam", "variant": "wcv", "y": [str(v) for v in yy], "nd": str(nd), "grid": [sc.fl(-1.8 + 0.2 * k) for k in range(30)], "robust": True,
                             "fam": "const", "level": L, "height": 0, "line": [str(L)] * n, "family": "LegacyRobustMad"}))
    return cases, dev


def run(tier, seed):
    rep = core.Report("X08", tier, seed)
    cases, dev = gen_cases(tier, seed)
    allc = []
    for c in cases + dev:
        try:
            allc.append(sc.execute(c))
        except Exception as e:          # noqa: BLE001 - an exception of the legacy kernel is an observation
            c["exception"] = repr(e)[:200]
            allc.append(c)
    hinted = any(c.get("hinted_run") for c in allc)
    for c in allc:
        c["hinted"] = bool(hinted and c.get("hasp"))
    runnable = [c for c in allc if "exception" not in c]
    verdicts, st = core.validate_batch(MODULE, [sc.tla_case(c) for c in runnable], per_jvm=5, timeout=7000, heap="4g")
    rep.add_stats("TraceSmooth on hdc/algo/ops/whit.py", st, len(runnable))
    ref = [c for c in allc if "family" not in c or c["family"] in ("vnear", "gcv2min")]
    devs = [c for c in allc if c not in ref]
    for c in ref:
        if "exception" in c:
            rep.reject({k: c[k] for k in c if k not in ("out",)}, "NoException", c["exception"])
    rep.settle([c for c in ref if "exception" not in c], {c["tid"]: verdicts[c["tid"]] for c in ref if "exception" not in c})
    fam = {}
    for c in devs:
        f = fam.setdefault(c["family"], {"cases": 0, "rejected": 0, "clauses": {}})
        f["cases"] += 1
        v = ("REJECT", "Exception", c["exception"]) if "exception" in c else verdicts[c["tid"]]
        if v[0] == "REJECT":
            f["rejected"] += 1
            f["clauses"][v[1]] = f["clauses"].get(v[1], 0) + 1
    # compare with the current package on the refinement leg (information only: both may sit on a tie)
    differs = 0
    for c in ref:
        if "exception" in c:
            continue
        try:
            cur = sc.execute({k: v for k, v in c.items() if k not in ("impl", "out", "lopt", "pats", "hints", "sg", "hinted_run", "swept")})
            differs += int(cur["out"] != c["out"] or cur["lopt"] != c["lopt"])
        except Exception:  # noqa: BLE001
            differs += 1
    rep.extra.update(distinct_nontrivial=len({json.dumps([c["variant"], c["y"], c.get("grid"), c.get("p"), c.get("lc"), c.get("lam")]) for c in ref}),
                     by_variant={v: sum(1 for c in ref if c["variant"] == v) for v in sorted({c["variant"] for c in ref})},
                     legacy_deviation_families=fam, legacy_differs_from_ops_package=differs, exhaustive=False,
                     rule="C04 / C05 generators (kernels only, finite placeholders, non-robust, lc not NaN) + fixed-lambda cases on the legacy module; deviation families must be rejected")
    for c in ref[:2] + devs[:2]:
        rep.sample(c04.describe(c))
    for name, f in fam.items():
        print(f"[X08] legacy deviation {name}: {f['rejected']}/{f['cases']} rejected {f['clauses']}")
        if f["rejected"] == 0:
            raise core.Machinery(f"deviation family {name}: no case of the unrepaired legacy kernels was rejected - the clause that found the defect went blind")
    rep.assumptions += ["whit.py is dead code for the package (nothing imports it); the properties C02-C06 are anchored in the ops/ws2d*.py files, so legacy deviations are recorded here and are not findings"]
    return rep.finish()


def replay(path):
    return c04.replay(path, "X08")
