------------------------------ MODULE TraceRuns ------------------------------
(* recorded calls of ops.lroo, hdc.algo.lroo(), hdc.algo.croo() against Runs *)
EXTENDS Runs, Json, IOUtils, TLC

Cases == JsonDeserialize(IOEnv.TRACE_FILE)
VARIABLES k, v

Bits(n, ix) == [j \in 1..n |-> (ix \div (2 ^ (j - 1))) % 2]

Lroo(c) == IF c.y = LongestFold(c.x, 1, 0, 0) THEN <<"ACCEPT", "", "">>
           ELSE <<"REJECT", "LongestRun", ToString(<<c.y, LongestFold(c.x, 1, 0, 0)>>)>>

LrooBulk(c) ==
    LET total == 2 ^ c.n
        bad == {ix \in 0..(total - 1) : c.ys[ix + 1] # LongestFold(Bits(c.n, ix), 1, 0, 0)}
    IN  IF Len(c.ys) # total THEN <<"REJECT", "BulkLength", "">>
        ELSE IF bad = {} THEN <<"ACCEPT", "", ToString(total)>>
        ELSE <<"REJECT", "LongestRun", ToString(Bits(c.n, Min(bad)))>>

\* c.t: time stamp of each stored position; c.y croo result; c.lroo result of
\* lroo on the same pixel (stored order sorted chronologically by the harness)
Croo(c) ==
    LET want == CurrentFold(c.x, c.t) IN
    IF c.y # want THEN <<"REJECT", "CurrentRun", ToString(<<c.y, want>>)>>
    ELSE IF c.y > (IF c.lroo > 1 THEN c.lroo ELSE 1) THEN <<"REJECT", "CrooLeLroo", ToString(<<c.y, c.lroo>>)>>
    ELSE <<"ACCEPT", "", "">>

Verdict(c) ==
    CASE c.op = "lroo"     -> Lroo(c)
      [] c.op = "lroobulk" -> LrooBulk(c)
      [] c.op = "croo"     -> Croo(c)
      [] OTHER             -> <<"REJECT", "UnknownOp", c.op>>

\* generic clauses of every recorded call: the caller's arrays come back untouched; an exception is an event
Guarded(c) == IF "inmod" \in DOMAIN c /\ c.inmod THEN <<"REJECT", "InputsUnmodified", "">>
              ELSE IF "exc" \in DOMAIN c /\ c.exc # "" THEN <<"REJECT", "NoException", c.exc>>
              ELSE Verdict(c)
Init == k \in 1..Len(Cases) /\ v = "todo"
Next == /\ v = "todo"
        /\ LET r == Guarded(Cases[k]) IN PrintT(<<"V", k, r[1], r[2], r[3]>>) /\ v' = r[1]
        /\ UNCHANGED k
TraceSpec == Init /\ [][Next]_<<k, v>>
=============================================================================
