----------------------------- MODULE IndexModels -----------------------------
(***************************************************************************)
(* C14: the index arithmetic of the kernels that have no step-by-step      *)
(* machine of their own, as sets of (array length, index) accesses that    *)
(* are functions of the input sizes.  (ws2d: Ws2d!IndexOK; rolling_sum:    *)
(* ReductionsMachine!RollIndexOK; tinterpolate cursors: MCTinterp;         *)
(* iteragg slices: IterAgg!SliceOK.)  An access is <<len, idx>>; numba's   *)
(* bounds semantics: in bounds iff -len <= idx < len.                      *)
(***************************************************************************)
EXTENDS Integers, FiniteSets

InBounds(a) == -a[1] <= a[2] /\ a[2] < a[1]
AllIn(S) == \A a \in S : InBounds(a)

\* V-curve kernels: y of length m, srange of length nl
VCurveAcc(m, nl) ==
    LET nl1 == nl - 1 IN
    {<<m, i>> : i \in 0..(m - 1)}                                 \* y, w, z over range(m)
    \cup {<<m - 1, i>> : i \in 0..(m - 2)} \cup {<<m, i + 1>> : i \in 0..(m - 2)}      \* diff1[i] = z[i+1] - z[i]
    \cup {<<m - 1, i + 1>> : i \in 0..(m - 3)}                    \* diff1[i+1] for i in range(m2)
    \cup {<<nl, lix>> : lix \in 0..(nl - 1)}                      \* fits, pens, llas
    \cup {<<nl, 0>>, <<nl, 1>>}                                   \* llastep = llas[1] - llas[0]
    \cup {<<nl, i + 1>> : i \in 0..(nl1 - 1)} \cup {<<nl1, i>> : i \in 0..(nl1 - 1)}   \* v[i], lamids[i], fits[i+1]
    \cup {<<nl1, 0>>}                                             \* vmin = v[k], k = 0
VCurveContract(m, nl) == m >= 2 /\ nl >= 2

\* GCV kernels: y of length m, srange of length nl, robust flag
GcvAcc(m, nl, robust) ==
    {<<m, 0>>}                                                     \* d_eigs[0] = 1e-15
    \cup {<<nl, i>> : i \in 0..(nl - 1)}
    \cup (IF robust THEN {<<4, 1>>} ELSE {<<1, 0>>})               \* robust_gcv[1] / robust_gcv[0] after 4 / 1 iterations
GcvContract(m, nl) == m >= 1 /\ nl >= 1

\* mean_grp / gammastd_grp: groups labelled 0..ng-1, cal_indices of shape (ng, 2)
GroupAcc(ng, rows) == {<<rows, g>> : g \in 0..(ng - 1)}
GroupContract(ng, rows) == rows >= ng

\* do_mean: zone ids z \in Z written into result[:, z, :] with num_zones rows
ZoneAcc(Z, nz) == {<<nz, z>> : z \in Z}
ZoneContract(Z, nz) == \A z \in Z : 0 <= z /\ z < nz

\* lroo: dots[ix] - dots[ix-1] for ix in range(1, dots.size)
LrooAcc(nd) == {<<nd, ix>> : ix \in 1..(nd - 1)} \cup {<<nd, ix - 1>> : ix \in 1..(nd - 1)}

\* autocorr_1d: xx = data[:-1], yy = data[1:], i in range(N), N = len - 1
AutoAcc(n) == {<<n - 1, i>> : i \in 0..(n - 2)}

\* mk_sens_slope: d of size n(n-1)/2 filled at ix = 0, 1, ...
SenAcc(n) == {<<(n * (n - 1)) \div 2, ix>> : ix \in 0..(((n * (n - 1)) \div 2) - 1)}
=============================================================================
