-------------------------- MODULE ReductionsMachine --------------------------
(***************************************************************************)
(* rolling_sum (hdc/algo/ops/stats.py) as a state machine: one action per  *)
(* loop iteration, array indices explicit.  Variant "sumvalid" is the      *)
(* repaired kernel, "pinned" the kernel at the pinned commit.              *)
(***************************************************************************)
EXTENDS Reductions

(* the same loops as a state machine (index safety is an invariant here) *)
CONSTANTS Variant
VARIABLES x, w, nd, ii, jj, acc, nv, yy, pc
rvars == <<x, w, nd, ii, jj, acc, nv, yy, pc>>

RollInit(X, W, ND) ==
    /\ x = X /\ w = W /\ nd = ND
    /\ ii = 0 /\ jj = 0 /\ acc = 0 /\ nv = 0
    /\ yy = [i \in 1..Len(X) |-> 0]          \* yy[:] = 0
    /\ pc = "outer"

Outer ==   \* for ii in range(n)
    /\ pc = "outer"
    /\ IF ii >= Len(x) THEN pc' = "done" /\ UNCHANGED <<ii, jj, acc, nv, yy>>
       ELSE IF ii - w + 1 < 0
            THEN /\ yy' = [yy EXCEPT ![ii + 1] = nd]
                 /\ ii' = ii + 1 /\ UNCHANGED <<jj, acc, nv, pc>>
            ELSE /\ jj' = ii - w + 1 /\ acc' = yy[ii + 1] /\ nv' = 0
                 /\ pc' = "inner" /\ UNCHANGED <<ii, yy>>
    /\ UNCHANGED <<x, w, nd>>

Inner ==   \* for jj in range(ii - w + 1, ii + 1)
    /\ pc = "inner"
    /\ IF jj > ii
       THEN /\ yy' = [yy EXCEPT ![ii + 1] =
                        IF Variant = "sumvalid" /\ nv = 0 THEN nd ELSE acc]
            /\ ii' = ii + 1 /\ pc' = "outer" /\ UNCHANGED <<jj, acc, nv>>
       ELSE /\ IF x[jj + 1] = nd
               THEN /\ acc' = (IF Variant = "pinned" THEN nd ELSE acc)
                    /\ nv' = nv
               ELSE /\ acc' = acc + x[jj + 1] /\ nv' = nv + 1
            /\ jj' = jj + 1 /\ UNCHANGED <<ii, yy, pc>>
    /\ UNCHANGED <<x, w, nd>>

RollNext == Outer \/ Inner

\* every index used by the next step is inside its array
RollIndexOK ==
    /\ (pc = "outer" /\ ii < Len(x)) => ii + 1 \in 1..Len(yy)
    /\ (pc = "inner" /\ jj <= ii)    => jj + 1 \in 1..Len(x)
    /\ (pc = "inner")                => ii + 1 \in 1..Len(yy)

RollDoneOK == pc = "done" => /\ yy = RollAlgo(Variant, x, w, nd)
                             /\ (Variant = "sumvalid" => RollKernelOK(x, w, nd, yy))


RollContractOK == pc = "done" => RollKernelOK(x, w, nd, yy)
=============================================================================
