------------------------------- MODULE MCZonal -------------------------------
(* small rasters: exact-accumulator algorithm = contract, permutation invariance; *)
(* and the accumulator-width experiment: AccBits = OutBits = 4 (accumulating in a *)
(* 4-bit output format) breaks the contract once a zone has more than 16 pixels.  *)
EXTENDS Zonal
CONSTANTS MaxRuns, AccBits, OutBits, Counts
VARIABLES inp, ok
Vals == {"nan", "-9", "1", "2", "5"}
Init == ok = "todo" /\ \E n \in 1..MaxRuns : \E R \in [1..n -> ({0, 1, 2, 7} \X Vals \X Counts)] : inp = R
Rev(R) == [i \in 1..Len(R) |-> R[Len(R) + 1 - i]]
CellOKm(al, st) == IF st[2] = 0 THEN al = <<"nan", "0">>
                   ELSE /\ al[2] = RRoundMant(RInt(st[2]), OutBits)
                        /\ RLe(RAbs(RSub(al[1], RDiv(st[1], RInt(st[2])))), RMul(RAbs(RDiv(st[1], RInt(st[2]))), RDiv("4", RInt(2 ^ OutBits))))
Eval(R) == \A kk \in 0..2 :
    LET st == ZoneStat(R, kk, "-9", 7)
        al == AlgoStat(R, kk, "-9", 7, AccBits, OutBits)
    IN  /\ ZoneStat(Rev(R), kk, "-9", 7) = st                \* rearranging pixels changes nothing
        /\ IF OutBits = 0
           THEN (IF st[2] = 0 THEN al = <<"nan", "0">> ELSE al = <<RDiv(st[1], RInt(st[2])), RInt(st[2])>>)
           ELSE CellOKm(al, st)
Next == ok = "todo" /\ ok' = (IF Eval(inp) THEN "yes" ELSE "no") /\ UNCHANGED inp
Spec == Init /\ [][Next]_<<inp, ok>>
Holds == ok # "no"
=============================================================================
