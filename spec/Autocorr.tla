------------------------------ MODULE Autocorr ------------------------------
(***************************************************************************)
(* hdc/algo/ops/autocorr.py (autocorr_1d_int / _float, autocorr,           *)
(* autocorr_tyx) and PixelAlgorithms.autocorr.                             *)
(* data: sequence of rationals, the marker nan for a missing cell.         *)
(* X = data[:-1], Y = data[1:]; missing cells are replaced by the mean of  *)
(* the valid cells of the respective vector (C15).                         *)
(***************************************************************************)
EXTENDS BigRat, Integers, Sequences, FiniteSets, TLC

Miss(s) == s = "nan"
XOf(dat) == SubSeq(dat, 1, Len(dat) - 1)
YOf(dat) == SubSeq(dat, 2, Len(dat))
Valid(v) == {i \in 1..Len(v) : ~Miss(v[i])}
RECURSIVE SumOver(_, _)
SumOver(F(_), S) == IF S = {} THEN "0" ELSE LET e == CHOOSE e \in S : TRUE IN RAdd(F(e), SumOver(F, S \ {e}))
Mean(v) == LET T(i) == v[i] IN RDiv(SumOver(T, Valid(v)), RInt(Cardinality(Valid(v))))

\* CONTRACT: sums of the mean-filled vectors (a filled cell contributes 0 deviation)
Cov(dat) == LET X == XOf(dat)  Y == YOf(dat)  mx == Mean(X)  my == Mean(Y)
                T(i) == RMul(RSub(X[i], mx), RSub(Y[i], my))
            IN  SumOver(T, Valid(X) \cap Valid(Y))
VarOf(v) == LET mv == Mean(v)  T(i) == RSq(RSub(v[i], mv)) IN SumOver(T, Valid(v))
Degenerate(dat) ==
    LET X == XOf(dat)  Y == YOf(dat) IN
    \/ Valid(X) \cap Valid(Y) = {}
    \/ VarOf(X) = "0" \/ VarOf(Y) = "0"

\* r is an acceptable float32 image of Cov / sqrt(VarX VarY)
ResultOK(dat, r, bound) ==    \* bound: 1 for the float32 results; 1 + 1e-9 for the unrounded float64 helper
    IF Len(dat) < 2 THEN TRUE
    ELSE IF Degenerate(dat) THEN r = "0"
    ELSE LET cc == Cov(dat)  vv == RMul(VarOf(XOf(dat)), VarOf(YOf(dat))) IN
         /\ RLe(RAbs(r), bound)
         /\ RLe(RAbs(RSub(RMul(RSq(r), vv), RSq(cc))), RMul("1/100000", vv))
         /\ (RLt(RMul("1/100", vv), RSq(cc)) => RSign(r) = RSign(cc))      \* sign, unless r is within 0.1 of 0
\* the value always lies in [-1, 1] (Cauchy-Schwarz on the filled vectors)
RangeOK(dat) == Degenerate(dat) \/ RLe(RSq(Cov(dat)), RMul(VarOf(XOf(dat)), VarOf(YOf(dat))))

----------------------------------------------------------------------------
(* ALGORITHM: the running sums of the kernels.  Variant "meanfilled" is the *)
(* repaired numerator, "pinned" the numerator of the pinned commit          *)
(* (covariance of the both-valid pairs about THEIR means).                  *)
Sums(dat) ==      \* <<Sxy, Sx_, Sy_, nxy, Sx, Sxx, nx, Sy, Syy, ny, N>>
    LET X == XOf(dat)  Y == YOf(dat)  B == Valid(X) \cap Valid(Y)
        S1(v, S) == LET T(i) == v[i] IN SumOver(T, S)
        S2(v, S) == LET T(i) == RSq(v[i]) IN SumOver(T, S)
        Sxy == LET T(i) == RMul(X[i], Y[i]) IN SumOver(T, B)
    IN  <<Sxy, S1(X, B), S1(Y, B), Cardinality(B), S1(X, Valid(X)), S2(X, Valid(X)), Cardinality(Valid(X)),
          S1(Y, Valid(Y)), S2(Y, Valid(Y)), Cardinality(Valid(Y)), Len(X)>>
\* squared result and sign as the kernel computes them: A^2 / (var_X var_Y)
AlgoParts(variant, dat) ==
    LET s == Sums(dat)
        nx == RInt(s[7])  ny == RInt(s[10])  nxy == RInt(s[4])  NN == RInt(s[11])
        A == IF variant = "pinned" THEN RSub(RMul(nxy, s[1]), RMul(s[2], s[3]))
             ELSE LET mx == RDiv(s[5], nx)  my == RDiv(s[8], ny) IN
                  RDiv(RMul(RMul(RAdd(RSub(RSub(s[1], RMul(mx, s[3])), RMul(my, s[2])), RMul(nxy, RMul(mx, my))), nx), ny), NN)
        vX == RDiv(RMul(RSub(RMul(nx, s[6]), RSq(s[5])), nx), NN)
        vY == RDiv(RMul(RSub(RMul(ny, s[9]), RSq(s[8])), ny), NN)
    IN  <<A, vX, vY, s[4]>>
\* algorithm = contract:  A^2 VarX VarY = Cov^2 vX vY  and same sign
AlgoMatches(variant, dat) ==
    IF Sums(dat)[4] = 0 THEN Degenerate(dat)       \* nxy == 0: return 0
    ELSE LET p == AlgoParts(variant, dat) IN
    IF p[2] = "0" \/ p[3] = "0" THEN Degenerate(dat)
    ELSE /\ ~Degenerate(dat)
         /\ RMul(RSq(p[1]), RMul(VarOf(XOf(dat)), VarOf(YOf(dat)))) = RMul(RSq(Cov(dat)), RMul(p[2], p[3]))
         /\ RSign(p[1]) = RSign(Cov(dat))
=============================================================================
