"""Runs inside a fresh subprocess with NUMBA_BOUNDSCHECK=1 (set by the parent before numba is imported).

Every kernel is compiled with bounds checking and called on boundary-sized and random
in-contract inputs, twice, on output buffers pre-filled with different garbage.
Prints one JSON line:  BOUNDS[...events...]
"""
from __future__ import annotations

import hashlib
import json
import random
import sys

import numpy as np

ND = -3000


def dig(res):
    if not isinstance(res, tuple):
        res = (res,)
    h = hashlib.md5()
    for a in res:
        a = np.ascontiguousarray(np.asarray(a))
        h.update(str(a.dtype).encode() + str(a.shape).encode() + a.tobytes())
    return h.hexdigest()[:16]


def garbage(shape, dtype, fill):
    a = np.empty(shape, dtype=dtype)
    a[...] = fill
    return a


_LIBC = None


def poison(byte):
    """fill recently freed heap blocks of many sizes with a byte pattern: output buffers a callee allocates with
    np.empty (gufunc outputs behind the accessors) then start from DIFFERENT junk in the two runs, so a cell the
    kernel never writes shows as a difference between repeated calls"""
    blocks = [np.full(sz, byte, dtype="uint8") for sz in (8, 16, 24, 32, 48, 64, 96, 128, 192, 256, 384, 512, 1024, 2048, 4096, 16384, 65536) for _ in range(6)]
    del blocks
    # arrays a compiled kernel allocates itself (np.empty inside @njit) come from the C allocator through numba's runtime, not from
    # numpy's small-block cache: fill and free C blocks of every small size class too (they land in the allocator's per-size free lists)
    global _LIBC
    if _LIBC is None:
        import ctypes
        _LIBC = ctypes.CDLL(None)
        _LIBC.malloc.restype = ctypes.c_void_p
        _LIBC.malloc.argtypes = [ctypes.c_size_t]
        _LIBC.free.argtypes = [ctypes.c_void_p]
        _LIBC.memset.argtypes = [ctypes.c_void_p, ctypes.c_int, ctypes.c_size_t]
        _LIBC.memset.restype = ctypes.c_void_p
    ptrs = []
    for sz in list(range(16, 1025, 16)) + [1536, 2048, 3072, 4096, 8192]:
        for _ in range(9):
            q = _LIBC.malloc(sz)
            if q:
                _LIBC.memset(q, byte, sz)
                ptrs.append(q)
    for q in ptrs:
        _LIBC.free(q)


def cases(seed, tier):
    from hdc.algo import ops
    from hdc.algo.ops import stats, zonal
    from hdc.algo.ops.autocorr import autocorr_1d, autocorr_1d_float, autocorr_1d_int
    from hdc.algo.ops.ws2d import ws2d
    from hdc.algo.ops.ws2doptvp import _ws2doptvp
    from hdc.algo.ops.ws2doptvplc import ws2doptvplc_tyx
    from hdc.algo.ops.ws2dwcvp import _ws2dwcvp

    rng = random.Random(seed)
    quick = tier == "quick"
    out = []

    def series(n, kind):
        if kind == "allmissing":
            return [ND] * n
        if kind == "constant":          # degenerate residuals (MAD = 0, perfect fits)
            return [700] * n
        if kind == "allzero":
            return [0] * n
        if kind == "constgaps":
            return [ND if (i % 3 == 1 and n > 3) else 700 for i in range(n)]
        v = [rng.randint(100, 3000) for _ in range(n)]
        if kind == "onevalid":
            j = rng.randrange(n)
            return [v[j] if i == j else ND for i in range(n)]
        if kind == "twovalid" and n >= 2:
            a, b = rng.sample(range(n), 2)
            return [v[i] if i in (a, b) else ND for i in range(n)]
        if kind == "gaps":
            return [ND if rng.random() < 0.3 else x for x in v]
        if kind == "someneg":           # an ordinary series with one or two negative cells that are NOT the nodata value
            for j in rng.sample(range(n), 1 if n < 5 else 2):
                v[j] = -v[j]
        return v

    kinds = ["full", "allmissing", "onevalid", "twovalid", "gaps", "constant", "allzero", "constgaps", "someneg"]
    sizes = [2, 3, 4, 5, 8] + ([] if quick else [13, 30])

    def gu(kernel, label, incontract, fn, outs):
        """fn(bufs) -> result using output buffers bufs (list) ; outs: list of (shape, dtype)"""
        out.append((kernel, label, incontract, fn, outs))

    for n in sizes:
        for kd in kinds:
            y = np.array(series(n, kd), dtype="float64")
            yi = y.astype("int16")
            lab = f"n={n},{kd}"
            for lam in (0.0, 10.0):
                gu("ws2dgu", lab + f",lam={lam}", True, lambda b, y=y, lam=lam: ops.ws2dgu(y, lam, ND, b[0]), [((n,), "int16")])
                gu("ws2dpgu", lab + f",lam={lam}", True, lambda b, y=y, lam=lam: ops.ws2dpgu(y, lam, ND, 0.9, b[0]), [((n,), "int16")])
            for nl in (2, 3, 5):
                sr = np.arange(nl) * 0.5 - 1.0
                gu("ws2doptv", lab + f",nl={nl}", True, lambda b, y=y, sr=sr: ops.ws2doptv(y, ND, sr, b[0], b[1]), [((n,), "int16"), ((), "float64")])
                gu("ws2doptvp", lab + f",nl={nl}", True, lambda b, y=y, sr=sr: ops.ws2doptvp(y, ND, 0.9, sr, b[0], b[1]), [((n,), "int16"), ((), "float64")])
                for rb in (False, True):
                    gu("ws2dwcv", lab + f",nl={nl},robust={rb}", True, lambda b, y=y, sr=sr, rb=rb: ops.ws2dwcv(y, ND, sr, rb, b[0], b[1]), [((n,), "int16"), ((), "float64")])
                    gu("ws2dwcvp", lab + f",nl={nl},robust={rb}", True, lambda b, y=y, sr=sr, rb=rb: ops.ws2dwcvp(y, ND, 0.9, sr, rb, b[0], b[1]), [((n,), "int16"), ((), "float64")])
            for lc in (0.7, 0.2, np.nan):
                gu("ws2doptvplc", lab + f",lc={lc}", True, lambda b, yi=yi, lc=lc: ops.ws2doptvplc(yi, ND, 0.9, lc, b[0], b[1]), [((n,), "int16"), ((), "float64")])
            w = (y != ND).astype("float64")
            if n >= 2:
                gu("ws2d", lab, True, lambda b, y=y, w=w: ws2d(y, 10.0, w), [])
            if (y != ND).sum() > 1 and n >= 4:
                sr = np.array([-1.0, 0.0, 1.0])
                gu("_ws2doptvp", lab, True, lambda b, y=y, w=w, sr=sr: _ws2doptvp(np.where(w == 0, 0.0, y), w, 0.9, sr), [])
                if (y != ND).sum() > 4:
                    gu("_ws2dwcvp", lab, True, lambda b, y=y, w=w, sr=sr: _ws2dwcvp(np.where(w == 0, 0.0, y), w, 0.9, sr, True), [])
            tyx = yi.reshape(n, 1, 1)
            gu("ws2doptvplc_tyx", lab, True, lambda b, tyx=tyx: ws2doptvplc_tyx(tyx, 0.9, ND), [])
            # statistics kernels
            gu("rolling_sum", lab + ",w=1", True, lambda b, yi=yi: stats.rolling_sum(yi, 1, ND, b[0]), [((n,), "float32")])
            gu("rolling_sum", lab + f",w={n}", True, lambda b, yi=yi, n=n: stats.rolling_sum(yi, n, ND, b[0]), [((n,), "float32")])
            for ng in (1, min(n, 3), n):
                g = np.array([i % ng for i in range(n)], dtype="int16")
                gu("mean_grp", lab + f",ng={ng}", True, lambda b, yi=yi, g=g, ng=ng: stats.mean_grp(yi, g, ng, ND, b[0]), [((n,), "float32")])
                xs = np.abs(yi).astype("int16")
                xs[yi == ND] = ND
                cal = np.array([[0, int((g == k).sum())] for k in range(ng)], dtype="int16")
                gu("gammastd_grp", lab + f",ng={ng}", True, lambda b, xs=xs, g=g, ng=ng, cal=cal: stats.gammastd_grp(xs, g, ng, ND, cal, b[0]), [((n,), "int16")])
            gu("gammastd_yxt", lab, True, lambda b, yi=yi: stats.gammastd_yxt(np.abs(yi).reshape(1, 1, -1), 3000, 0, len(yi)), [])
            if kd in ("someneg", "gaps", "full"):
                # cells that are neither nodata nor a non-negative observation (negative values, NaN in a float series with a numeric
                # nodata): the pixel is still fitted, those cells must still be written; the pixel sits between two ordinary neighbours
                # (scratch arrays a kernel allocates per pixel are recycled from the previous pixel, so an unwritten cell echoes the
                # NEIGHBOUR: the second run puts the same pixel between different neighbours and only the pixel's own row is compared)
                for dt in ("int16", "float32"):
                    cube = np.stack([np.abs(yi), yi, np.abs(yi)[::-1]]).astype(dt).reshape(1, 3, -1)
                    if dt == "float32" and n >= 3:
                        cube[0, 1, n // 2] = np.nan
                    cube2 = cube.copy()
                    cube2[0, 0] = (np.arange(n) * 37 % 11 + 1).astype(dt)
                    cube2[0, 2] = (3000 - np.arange(n) * 5).astype(dt)
                    zg, cal1 = np.zeros(n, dtype="int16"), np.array([[0, n]], dtype="int16")
                    f1 = lambda b, cube=cube: np.array(stats.gammastd_yxt(cube, ND, 0, cube.shape[-1])[0, 1])  # noqa: E731
                    f1.second = lambda b, cube2=cube2: np.array(stats.gammastd_yxt(cube2, ND, 0, cube2.shape[-1])[0, 1])
                    gu("gammastd_yxt", lab + f",raw,{dt}", True, f1, [])
                    f2 = lambda b, cube=cube, zg=zg, cal1=cal1: np.array(stats.gammastd_grp(cube, zg, 1, ND, cal1)[0, 1])  # noqa: E731
                    f2.second = lambda b, cube2=cube2, zg=zg, cal1=cal1: np.array(stats.gammastd_grp(cube2, zg, 1, ND, cal1)[0, 1])
                    gu("gammastd_grp", lab + f",raw,{dt}", True, f2, [])
            gu("_mann_kendall_trend_gu", lab, True, lambda b, yi=yi: stats._mann_kendall_trend_gu(yi, b[0], b[1], b[2], b[3]), [((), "float32"), ((), "float32"), ((), "float32"), ((), "int8")])
            gu("_mann_kendall_trend_gu_nd", lab, True, lambda b, yi=yi: stats._mann_kendall_trend_gu_nd(yi, ND, b[0], b[1], b[2], b[3]), [((), "float32"), ((), "float32"), ((), "float32"), ((), "int8")])
            gu("mann_kendall_trend_1d", lab, True, lambda b, yi=yi: tuple(np.float64(v) for v in stats.mann_kendall_trend_1d(yi)), [])
            gu("mk_score", lab, True, lambda b, yi=yi: tuple(np.float64(v) for v in stats.mk_score(yi)), [])
            gu("mk_variance_s", lab, True, lambda b, yi=yi: np.float64(stats.mk_variance_s(yi)), [])
            gu("mk_sens_slope", lab, True, lambda b, yi=yi: tuple(np.float64(v) for v in stats.mk_sens_slope(yi.astype("float64"))), [])
            gu("mann_kendall_trend_yxt", lab, True, lambda b, yi=yi: stats.mann_kendall_trend_yxt(yi.reshape(1, 1, -1)), [])
            # autocorr
            gu("autocorr", lab, True, lambda b, yi=yi: ops.autocorr(yi.reshape(1, 1, -1), ND), [])
            gu("autocorr_tyx", lab, True, lambda b, yi=yi: ops.autocorr_tyx(yi.reshape(-1, 1, 1), ND), [])
            gu("autocorr_1d", lab, True, lambda b, yi=yi: np.float64(autocorr_1d(yi, ND)), [])
            gu("autocorr_1d_int", lab, True, lambda b, yi=yi: np.float64(autocorr_1d_int(yi, ND)), [])
            yf = y.copy()
            yf[y == ND] = np.nan
            gu("autocorr_1d_float", lab, True, lambda b, yf=yf: np.float64(autocorr_1d_float(yf)), [])
            # lroo
            bits = (yi > 1500).astype("uint8")
            gu("lroo", lab, True, lambda b, bits=bits: ops.lroo(bits, b[0]), [((), "uint32")])
            # zonal: single pixel rows, single zone / every pixel its own zone / empty zones
            pix = yi.reshape(1, 1, n)
            for nz, zr in ((1, np.zeros((1, n), dtype="int32")), (n, np.arange(n, dtype="int32").reshape(1, n)), (n + 3, np.arange(n, dtype="int32").reshape(1, n))):
                gu("do_mean", lab + f",nz={nz}", True, lambda b, pix=pix, zr=zr, nz=nz: zonal.do_mean(pix, zr, nz, ND, 255, np.float32), [])
    # zonal.mean through the accessor: the cube stored time first / last / middle (zone raster (y, x))
    import pandas as pd
    import xarray as xr

    zcube = xr.DataArray(np.array([rng.randint(1, 900) for _ in range(5 * 2 * 3)], dtype="int16").reshape(5, 2, 3), dims=("time", "y", "x"),
                         coords={"time": pd.date_range("2000-01-01", periods=5, freq="10D")}, attrs={"nodata": ND})
    zras = xr.DataArray(np.array([[0, 1, 1], [2, 0, 255]], dtype="int32"), dims=("y", "x"), attrs={"nodata": 255})
    for order in (("time", "y", "x"), ("y", "x", "time"), ("y", "time", "x"), ("x", "y", "time")):
        gu("zonal.mean(accessor)", "dims=" + ",".join(order), True, lambda b, order=order: np.asarray(zcube.transpose(*order).hdc.zonal.mean(zras, [0, 1, 2])), [])
        # ... the (non-square) zone raster stored in (x, y) order, eager and dask-backed
        gu("zonal.mean(accessor)", "zones=x,y;dims=" + ",".join(order), True, lambda b, order=order: np.asarray(zcube.transpose(*order).hdc.zonal.mean(zras.transpose("x", "y"), [0, 1, 2])), [])
        gu("zonal.mean(accessor)", "dask;zones=x,y;dims=" + ",".join(order), True,
           lambda b, order=order: np.asarray(zcube.transpose(*order).chunk({"time": 2}).hdc.zonal.mean(zras.transpose("x", "y"), [0, 1, 2])), [])
    # every accessor operation on a cube stored time first / last / middle (eager), with bounds checking on:
    # the accessors hand cubes to (y, x, t) / (t, y, x) kernels and must put the axes where those expect them
    from harness.props import x05

    for op in x05.OPS:
        if op == "zonal_mean":
            continue
        for order in (("time", "y", "x"), ("y", "x", "time"), ("x", "time", "y")):
            c = {"op": op, "dims": list(order), "lazy": False, "name": "v", "dtype": "int16", "T": 7, "ny": 2, "nx": 3, "w": 3, "nper": 2, "nz": 2,
                 "dimname": "zones", "zname": "none", "outdtype": "float32", "tid": 1 + len(out)}

            def run_acc(b, c=c):
                import xarray as xr

                r = x05.call(c, x05.build(c))
                return tuple(np.asarray(r[n]) for n in sorted(r.data_vars)) if isinstance(r, xr.Dataset) else np.asarray(r)

            gu(f"accessor:{op}", "dims=" + ",".join(order), True, run_acc, [])
    gu("mk_z_score", "scalars", True, lambda b: np.float64(stats.mk_z_score(7, 11.5)), [])
    gu("mk_p_value", "scalars", True, lambda b: tuple(np.float64(v) for v in stats.mk_p_value(1.3)), [])
    gu("brentq", "scalars", True, lambda b: np.float64(stats.brentq(0.6446262296476516, 1.5041278691778537, 0.5278852360624721)), [])
    gu("gammafit", "small", True, lambda b: tuple(np.float64(v) for v in stats.gammafit(np.array([1.0, 2.0, 0.0, 5.5]))), [])
    gu("gammastd", "small", True, lambda b: stats.gammastd(np.array([1.0, 2.0, 0.0, 5.5, -3.0]), -3.0, 0, 5), [])
    # temporal interpolation: templates of length >= 4 with as many marks as observations
    for nobs, step, lead, trail in ((2, 3, 0, 0), (2, 1, 1, 1), (3, 5, 0, 2), (5, 10, 3, 0), (8, 5, 0, 0), (2, 2, 0, 1)):
        nday = (nobs - 1) * step + 1 + lead + trail
        if nday < 4:
            continue
        tm = np.zeros(nday)
        tm[lead : lead + (nobs - 1) * step + 1 : step] = 1
        for nper in (1, 2, nday):
            labs = (np.arange(nday) * nper // nday).astype("int32")
            x = np.array([rng.randint(0, 500) for _ in range(nobs)], dtype="int16")
            nout = len(np.unique(labs))
            gu("tinterpolate", f"nobs={nobs},nday={nday},periods={nout}", True, lambda b, x=x, tm=tm, labs=labs, nout=nout: ops.tinterpolate(x, tm, labs, np.zeros(nout, dtype="u1"), b[0]), [((nout,), "int16")])
    return out


def main():
    repo, seed, tier = sys.argv[1], int(sys.argv[2]), sys.argv[3]
    sys.path.insert(0, repo)
    import numba

    events = []
    for kernel, label, incontract, fn, outs in cases(seed, tier):
        ev = {"kernel": kernel, "label": label, "incontract": incontract, "outcome": "ok", "digest1": "", "digest2": ""}
        try:
            poison(0x4D)
            r1 = fn([garbage(s, d, 77) for s, d in outs])
            poison(0xD3)
            r2 = getattr(fn, "second", fn)([garbage(s, d, 13) for s, d in outs])
            ev["digest1"], ev["digest2"] = dig(r1), dig(r2)
        except IndexError:
            ev["outcome"] = "IndexError"
        except Exception as ex:
            ev["outcome"] = type(ex).__name__
        events.append(ev)
    print("BOUNDS" + json.dumps({"boundscheck": bool(numba.config.BOUNDSCHECK), "events": events}))


if __name__ == "__main__":
    main()
