--------------------------- MODULE TraceReductions ---------------------------
(***************************************************************************)
(* Validation of recorded executions of rolling_sum / mean_grp and their   *)
(* accessors against the contract layer of Reductions.  One case = one     *)
(* recorded call (or a linked pair of calls for the nodata-independence    *)
(* clause, or a bulk record holding the outputs for EVERY series of a      *)
(* small scope, enumerated here in the same canonical order).              *)
(* Output cells arrive as canonical rational strings ("nan"/"inf" when not *)
(* finite), inputs as integers.                                            *)
(***************************************************************************)
EXTENDS Reductions, BigRat, Json, IOUtils, TLC

Cases == JsonDeserialize(IOEnv.TRACE_FILE)
VARIABLES k, v

IsNum(s) == s \notin {"nan", "inf", "-inf"}
S(i) == ToString(i)
StrSeq(ys) == [i \in 1..Len(ys) |-> ys[i]]

\* integer image of an output sequence; a cell that is not an integer that
\* fits maps to a value no contract allows
Big == 1073741823
AsInt(s) == IF IsNum(s) /\ RIsInt(s) /\ RLe(RAbs(s), S(Big - 1)) THEN RRoundHE(s) ELSE Big
IntSeq(ys) == [i \in 1..Len(ys) |-> AsInt(ys[i])]

First(cl) ==   \* cl: sequence of <<name, bool>>; the first failing clause
    LET bad == {i \in 1..Len(cl) : ~cl[i][2]}
    IN  IF bad = {} THEN <<"ACCEPT", "", "">>
        ELSE LET i == CHOOSE i \in bad : \A j \in bad : i <= j IN <<"REJECT", cl[i][1], "">>

----------------------------------------------------------------------------
Roll(c) ==
    LET y == IntSeq(c.y) IN
    IF c.w < 1 \/ c.w > Len(c.x) THEN <<"SKIP", "window-out-of-contract", "">>
    ELSE IF c.api = "kernel"
         THEN First(<< <<"RollLength", Len(y) = Len(c.x)>>,
                       <<"RollIncompleteIsNodata", Len(y) = Len(c.x) => \A i \in 1..(c.w - 1) : y[i] = c.nd>>,
                       <<"RollAllowed", Len(y) = Len(c.x) => \A i \in c.w..Len(c.x) : y[i] \in RollAllowed(c.x, c.w, c.nd, i)>> >>)
         ELSE First(<< <<"RollTrim", Len(y) = Len(c.x) - (c.w - 1)>>,
                       <<"RollAllowed", Len(y) = Len(c.x) - (c.w - 1) => RollAccessorOK(c.x, c.w, c.nd, y)>> >>)

RollPair(c) ==
    LET y1 == IntSeq(c.y1)  y2 == IntSeq(c.y2) IN
    IF ~SameUpToSentinel(c.x1, c.nd1, c.x2, c.nd2) THEN <<"SKIP", "not-a-sentinel-pair", "">>
    ELSE First(<< <<"RollAllowed1", RollKernelOK(c.x1, c.w, c.nd1, y1)>>,
                  <<"RollAllowed2", RollKernelOK(c.x2, c.w, c.nd2, y2)>>,
                  <<"RollNodataIndependent",
                    (Len(y1) = Len(c.x1) /\ Len(y2) = Len(c.x1))
                        => RollIndependent(c.x1, c.nd1, y1, c.x2, c.nd2, y2, c.w)>> >>)

\* all series of length n over alphabet A, in base-|A| order, position 1 fastest
SeriesNo(A, n, ix) == [j \in 1..n |-> A[((ix \div (Len(A) ^ (j - 1))) % Len(A)) + 1]]

RollBulk(c) ==   \* c.ys[ix+1] = kernel output (integers) for series number ix
    LET total == Len(c.A) ^ c.n
        bad == {ix \in 0..(total - 1) : ~RollKernelOK(SeriesNo(c.A, c.n, ix), c.w, c.nd, c.ys[ix + 1])}
    IN  IF Len(c.ys) # total THEN <<"REJECT", "BulkLength", "">>
        ELSE IF bad = {} THEN <<"ACCEPT", "", ToString(total)>>
        ELSE <<"REJECT", "RollAllowed", ToString(SeriesNo(c.A, c.n, CHOOSE ix \in bad : \A o \in bad : ix <= o))>>

----------------------------------------------------------------------------
\* float32 result r against the exact mean s/n: a few units of single precision
MeanTol(m) == RMul(RAbs(m), "1/4194304")      \* 2^-22 relative
MeanCellOK(r, sn, nd) ==
    IF sn[2] = 0 THEN r = S(nd)
    ELSE /\ IsNum(r)
         /\ LET m == RDiv(S(sn[1]), S(sn[2])) IN RWithin(r, m, MeanTol(m))

MeanGrp(c) ==
    LET ok == \A i \in 1..Len(c.g) : c.g[i] \in 0..(c.ng - 1) IN
    IF ~ok \/ Len(c.g) # Len(c.x) THEN <<"SKIP", "labels-out-of-contract", "">>
    ELSE First(<< <<"MeanLength", Len(c.y) = Len(c.x)>>,
                  <<"MeanOfValidMembers",
                    Len(c.y) = Len(c.x) =>
                       \A i \in 1..Len(c.x) : MeanCellOK(c.y[i], GroupMean(c.x, c.g, c.nd, c.g[i]), c.nd)>> >>)

MeanPair(c) ==   \* same data under two sentinels: same means, sentinel echoed
    IF ~SameUpToSentinel(c.x1, c.nd1, c.x2, c.nd2) THEN <<"SKIP", "not-a-sentinel-pair", "">>
    ELSE First(<< <<"MeanNodataIndependent",
                    \A i \in 1..Len(c.x1) :
                        LET sn == GroupMean(c.x1, c.g, c.nd1, c.g[i]) IN
                        IF sn[2] = 0 THEN c.y1[i] = S(c.nd1) /\ c.y2[i] = S(c.nd2)
                        ELSE c.y1[i] = c.y2[i]>> >>)

Verdict(c) ==
    CASE c.exc # ""        -> <<"REJECT", "NoException", c.exc>>
      [] c.op = "roll"     -> Roll(c)
      [] c.op = "rollpair" -> RollPair(c)
      [] c.op = "rollbulk" -> RollBulk(c)
      [] c.op = "meangrp"  -> MeanGrp(c)
      [] c.op = "meanpair" -> MeanPair(c)
      [] OTHER             -> <<"REJECT", "UnknownOp", c.op>>

----------------------------------------------------------------------------
\* generic clauses of every recorded call: the caller's arrays come back untouched; an exception is an event
Guarded(c) == IF "inmod" \in DOMAIN c /\ c.inmod THEN <<"REJECT", "InputsUnmodified", "">>
              ELSE IF "exc" \in DOMAIN c /\ c.exc # "" THEN <<"REJECT", "NoException", c.exc>>
              ELSE Verdict(c)
Init == k \in 1..Len(Cases) /\ v = "todo"
Next == /\ v = "todo"
        /\ LET r == Guarded(Cases[k]) IN
              /\ PrintT(<<"V", k, r[1], r[2], r[3]>>)
              /\ v' = r[1]
        /\ UNCHANGED k
TraceSpec == Init /\ [][Next]_<<k, v>>
=============================================================================
