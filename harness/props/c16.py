"""C16 - zonal mean is the exact mean and count of valid pixels per zone.

(A) MCZonal: exact accumulation = contract, permutation invariance; accumulator-width experiment
    (accumulating in a narrow output format breaks the contract; a wide accumulator + one rounding holds).
(B) do_mean and hdc.zonal.mean (float32 default / float64, numpy / dask) on rasters described as
    run-length encoded pixel streams: random small rasters, 1..1000 zones incl. empty, nodata / NaN
    shares, large zones (1e5 .. 2.5e7 pixels), rearranged pixels; TLC computes exact sum/count per
    (time, zone) from the runs and decides every cell.
"""
from __future__ import annotations

import json
import random

import numpy as np

from .. import core

MODULE = "TraceZonal"
ND = -9999
ZND = 255


def build(steps, shape, dtype, shuffle_seed=None):
    """rasters from runs: steps[t] = [[zone, value|None(NaN), count], ...] (same zone layout for all t)"""
    total = shape[0] * shape[1]
    zones = np.empty(total, dtype=["int32", "uint8", "int16", "int64"][total % 4])     # zone rasters come in several integer types
    pix = np.empty((len(steps), total), dtype=dtype)
    pos = 0
    for (z, _v, cnt) in steps[0]:
        zones[pos : pos + cnt] = z
        pos += cnt
    assert pos == total, (pos, total)
    for t, runs in enumerate(steps):
        pos = 0
        for (_z, v, cnt) in runs:
            pix[t, pos : pos + cnt] = np.nan if v is None else v
            pos += cnt
    if shuffle_seed is not None:
        perm = np.random.default_rng(shuffle_seed).permutation(total)
        zones = zones[perm]
        pix = pix[:, perm]
    return pix.reshape((len(steps),) + tuple(shape)), zones.reshape(shape)


def execute(c):
    import xarray as xr
    from hdc.algo.ops.zonal import do_mean

    pix, zones = build(c["steps"], c["shape"], c["dtype"], c.get("shuffle"))
    ND = c.get("ndv", globals()["ND"])      # the nodata value of this case (data values equal to it are the missing ones)
    out = np.float32 if c["bits"] == 24 else np.float64
    watch = core.Watch(pix, zones)
    if c["api"] == "kernel":
        res = do_mean(pix, zones, c["nz"], ND, ZND, out)
    else:
        import pandas as pd

        da = xr.DataArray(pix, dims=("time", "y", "x"), coords={"time": pd.date_range("2000-01-01", periods=pix.shape[0], freq="10D")}, attrs={"nodata": ND})
        zn = xr.DataArray(zones, dims=("y", "x"), attrs={"nodata": ZND})
        if c.get("zorder"):         # the zone raster stored in the other order: pixels and zones meet by dimension NAME
            zn = zn.transpose(*c["zorder"])
        # stored layout of the cube: time first / last / middle (the zone raster stays (y, x))
        order = {1: ("y", "x", "time"), 2: ("y", "time", "x")}.get(c["tid"] % 5)
        if order and c["api"] != "accessor_dask_joint":
            da = da.transpose(*order)
            c["layout"] = list(order)
        if c["api"] in ("accessor_dask", "accessor_dask_joint"):
            da = da.chunk({"time": 1})
        if c["api"] == "accessor_dask_joint":
            # two results with the same name over DIFFERENT zone rasters evaluated in one graph: each must be its own
            import dask

            z64 = zones.astype("int64")
            zb = xr.DataArray(np.where(z64 == ZND, ZND, (z64 + 1) % max(c["nz"], 1)).astype(zones.dtype if c["nz"] <= 200 else "int64"), dims=("y", "x"), attrs={"nodata": ZND})
            dt_ = "float32" if c["bits"] == 24 else "float64"
            ra = da.hdc.zonal.mean(zn, list(range(c["nz"])), dtype=dt_, name="zmean")
            rb = da.hdc.zonal.mean(zb, list(range(c["nz"])), dtype=dt_, name="zmean")
            va, vb = dask.compute(ra, rb)
            res = np.asarray(va)
            resb = np.asarray(vb)
            # the twin: same pixels, zone k of raster B is zone k-1 of raster A
            nzz = c["nz"]
            c["twin"] = {"nz": nzz, "bits": c["bits"], "nd": core.rat(ND), "znd": ZND, "inmod": False,
                         "steps": [[[((z + 1) % nzz if z != ZND else ZND), v, cnt] for (z, v, cnt) in runs] for runs in c["steps"]],
                         "res": [[[core.rat(resb[t, z, 0]), core.rat(resb[t, z, 1])] for z in range(nzz)] for t in range(resb.shape[0])]}
            c["res"] = [[[core.rat(res[t, z, 0]), core.rat(res[t, z, 1])] for z in range(nzz)] for t in range(res.shape[0])]
            c["nd"], c["znd"], c["inmod"] = core.rat(ND), ZND, watch.changed()
            return c
        zone_ids = list(range(c["nz"])) if c["tid"] % 2 else np.arange(c["nz"])
        dimn = "zones" if c["tid"] % 3 else "region"
        r = da.hdc.zonal.mean(zn, zone_ids, dtype="float32" if c["bits"] == 24 else "float64", dim_name=dimn, name=("zm" if c["tid"] % 4 == 0 else None))
        res = np.asarray(r)
        meta_ok = (tuple(r.dims) == ("time", dimn, "stat") and list(np.asarray(r[dimn]).tolist()) == list(range(c["nz"])) and list(r["stat"].values) == ["mean", "valid"]
                   and r.attrs.get("nodata") == ND and bool((r["time"].values == da["time"].values).all()))
        if not meta_ok:
            res = np.full_like(res, -12345.0)
        if str(r.dtype) != ("float32" if c["bits"] == 24 else "float64"):
            res = np.full_like(res, -12345.0)
    c["res"] = [[[core.rat(res[t, z, 0]), core.rat(res[t, z, 1])] for z in range(c["nz"])] for t in range(res.shape[0])]
    c["nd"] = core.rat(ND)
    c["znd"] = ZND
    c["inmod"] = watch.changed()
    return c


def tla_case(c):
    d = {k: c[k] for k in ("tid", "nz", "bits", "res", "nd", "znd", "inmod")}
    d["steps"] = [[[z, "nan" if v is None else core.rat(v), cnt] for (z, v, cnt) in runs] for runs in c["steps"]]
    return d


def gen_cases(tier, seed):
    rng = random.Random(seed * 27644437 % (2**31) + 16)
    quick = tier == "quick"
    cases = []

    def add(c):
        c["tid"] = len(cases) + 1
        cases.append(c)

    def layout(total, nz, kinds):
        """zone layout: runs of zones (some zones empty, some pixels in the nodata zone)"""
        runs, left = [], total
        while left > 0:
            cnt = min(left, rng.choice(kinds))
            z = rng.choice(list(range(nz)) + [ZND]) if rng.random() < 0.9 else rng.randrange(nz)
            runs.append([z, cnt])
            left -= cnt
        return runs

    def values(lay, dtype, pmiss, pnan):
        out = []
        for z, cnt in lay:
            r = rng.random()
            if r < pmiss:
                v = ND
            elif r < pmiss + pnan and dtype not in ("int16", "int32"):
                v = None
            else:
                v = rng.randint(-2000, 10000) if dtype in ("int16", "int32") else rng.choice([rng.randint(-2000, 10000), rng.randint(-8000, 8000) / 8.0])
            out.append([z, v, cnt])
        return out

    # small random rasters, many zones incl. empty ones
    for _ in range(120 if quick else 1200):
        ny, nx = rng.randint(1, 12), rng.randint(1, 12)
        if rng.random() < 0.35:
            nx = ny = max(2, ny)
        nz = rng.choice([1, 2, 3, 5, 17, 100, 1000])
        nz_used = max(1, min(nz, rng.randint(1, 8)))
        dtype = rng.choice(["int16", "float32", "float64", "int32"])
        lay = layout(ny * nx, nz_used, [1, 1, 2, 3, 7])
        T = rng.randint(1, 3)
        steps = [values(lay, dtype, rng.choice([0, 0.2, 0.8]), rng.choice([0, 0.2])) for _ in range(T)]
        api = rng.choice(["kernel", "accessor", "accessor_dask", "accessor_dask_joint"])
        if api == "kernel":   # the kernel itself only knows nodata (NaN is mapped to nodata by the accessor)
            steps = [[[z, (ND if v is None else v), cnt] for z, v, cnt in s] for s in steps]
        c = {"api": api, "steps": steps, "shape": [ny, nx], "dtype": dtype, "nz": nz, "bits": rng.choice([24, 24, 53])}
        if api != "kernel" and ny == nx:
            # square rasters: the zone raster is handed over in (x, y) order (a mix-up of the two axes changes numbers here, it does
            # not crash; the non-square form of the same mistake is an out-of-bounds access and belongs to C14's bounds worker)
            c["zorder"] = ["x", "y"]
        # the nodata value itself varies: values the data type holds exactly but a narrower float does not
        # (1e20, the int32 maximum), the edges of int16, the float maxima
        ndv = rng.choice({"int16": [ND, ND, -32768, 32767], "int32": [2147483647, -2147483648, ND], "float32": [ND, ND, -3.4028234663852886e38],
                          "float64": [ND, 1e20, -1.7976931348623157e308, 2147483647.0]}[dtype])
        if ndv != ND:
            c["ndv"] = ndv
            c["steps"] = [[[z, (ndv if v == ND else v), cnt] for z, v, cnt in s_] for s_ in steps]
        add(c)
    # neighbours of the sentinel: valid observations one or a few representable steps (or a relative 1e-7 .. 3e-6) away from
    # the nodata value - "is nodata" is an exact comparison, not a tolerance match (float64 sentinels stay at 1e300 in
    # magnitude: a zone sum of several values next to the float64 maximum overflows any float64 accumulator, out of claim)
    def neighbours(ndv, dtype):
        if dtype in ("int16", "int32"):
            info = np.iinfo(dtype)
            return [int(ndv) + d for d in (1, -1, 2, -3, 100, -128, 256, -300) if info.min <= int(ndv) + d <= info.max]
        ft = np.dtype(dtype).type
        out = []
        with np.errstate(over="ignore"):
            for direction in (np.inf, -np.inf):
                x = ft(ndv)
                for _k in range(3):
                    x = np.nextafter(x, ft(direction))
                    if np.isfinite(x):
                        out.append(float(x))
            for f in (1 + 1e-7, 1 - 1e-7, 1 + 3e-6, 1 - 3e-6):
                x = ft(ndv * f)
                if np.isfinite(x) and float(x) != float(ft(ndv)):
                    out.append(float(x))
        return out

    apis = ["kernel", "accessor", "accessor_dask"]
    k = 0
    for dtype, ndvs in (("int16", [ND, -32768, 32767, 255]), ("int32", [2147483647, -2147483648, ND, 16777216]),
                        ("float32", [ND, -3.4028234663852886e38, 255.0, 65535.0]), ("float64", [ND, 1e20, -1e300, 255.0])):
        for ndv in ndvs if not quick else ndvs[: 3 if dtype != "float64" else 4]:
            nb = neighbours(ndv, dtype)
            if not nb:
                continue
            ny, nx = rng.choice([(2, 4), (3, 3), (1, 6)])
            lay = layout(ny * nx, 3, [1, 1, 2])
            steps = [[[z, (ndv if rng.random() < 0.25 else rng.choice(nb) if rng.random() < 0.7 else rng.randint(1, 50)), cnt] for z, cnt in lay] for _t in range(2)]
            c = {"api": apis[k % 3], "steps": steps, "shape": [ny, nx], "dtype": dtype, "nz": 4, "bits": [24, 53][k % 2], "family": "near-sentinel"}
            if ndv != ND:
                c["ndv"] = ndv
            if dtype == "float64" and abs(ndv) > 3.0e38:
                c["bits"] = 53          # neighbours of such a sentinel have no float32 image: a float32 result would be +-inf (out of claim)
            k += 1
            add(c)
    # large zones in run-length form
    big = [(400, 250), (1000, 1000), (4200, 4200)] if quick else [(400, 250), (1000, 1000), (3000, 3000), (5000, 5000)]
    for ny, nx in big:
        total = ny * nx
        for fam in ("constant", "twovalued", "onelarge", "mixed") if not (quick and total > 2_000_000) else ("constant", "mixed"):
            if fam == "constant":
                steps = [[[0, 3, total]]]
            elif fam == "twovalued":
                steps = [[[0, 1, total // 2], [0, 10000, total - total // 2]]]
            elif fam == "onelarge":
                steps = [[[0, 10000, 1], [0, 1, total - 1]]]
            else:
                steps = [[[0, 7, total // 3], [ZND, 5, 11], [1, ND, 100], [0, -3, total - total // 3 - 111]]]
            for bits in (24, 53):
                add({"api": rng.choice(["kernel", "accessor"]), "steps": steps, "shape": [ny, nx], "dtype": "int16", "nz": 3, "bits": bits, "shuffle": (seed + ny) if fam in ("twovalued", "mixed") and total <= 9_000_000 else None})
    return cases


def describe(c):
    return {"api": c["api"], "shape": c["shape"], "dtype": c["dtype"], "nz": c["nz"], "bits": c["bits"], "T": len(c["steps"]), "runs0": c["steps"][0][:4], "res0": [[float(core.unrat(x)) if x not in ("nan",) else x for x in cell] for cell in c.get("res", [[]])[0][:3]]}


def run(tier, seed):
    rep = core.Report("C16", tier, seed)
    quick = tier == "quick"
    cfg = lambda runs, acc, outb, counts: f"SPECIFICATION Spec\nCHECK_DEADLOCK FALSE\nCONSTANTS\n MaxRuns = {runs}\n AccBits = {acc}\n OutBits = {outb}\n Counts <- CountsDef\nINVARIANT Holds\n"  # noqa: E731
    r = core.must_pass(core.tlc("MCZonal", cfg(3, 0, 0, 0), defs=("CountsDef == {1, 2}\n" if quick else "CountsDef == {1, 2, 3}\n"), workers=core.NCPU, timeout=3000, heap="6g"), "zonal exact")
    rep.add_mc("MCZonal exact accumulators = contract, permutation invariance", r)
    r = core.must_pass(core.tlc("MCZonal", cfg(2, 12, 4, 0), defs="CountsDef == {1, 20}\n", workers=core.NCPU, timeout=3000, heap="6g"), "zonal wide accumulator")
    rep.add_mc("MCZonal 12-bit accumulators, 4-bit output: contract holds for zones up to 40 pixels", r)
    r = core.tlc("MCZonal", cfg(2, 4, 4, 0), defs="CountsDef == {1, 20}\n", workers=4, timeout=900)
    if r.violated_name() != "Holds":
        raise core.Machinery(f"negative control failed: accumulating in the 4-bit output format must break the contract\n{r.tail(20)}")
    rep.add_mc("MCZonal accumulators in the output format (negative control: violated as expected)", r)
    cases = [execute(c) for c in gen_cases(tier, seed)]
    twins = []
    for c in cases:
        if "twin" in c:
            t = dict(c["twin"], tid=len(cases) + len(twins) + 1, api="accessor_dask_joint(twin)", shape=c["shape"], dtype=c["dtype"])
            t["steps"] = [[[z, (None if v is None else v), cnt] for (z, v, cnt) in runs] for runs in t["steps"]]
            twins.append(t)
    cases += twins
    verdicts, st = core.validate_batch(MODULE, [tla_case(c) for c in cases], per_jvm=200, timeout=6000, heap="4g")
    rep.add_stats("TraceZonal", st, len(cases))
    rep.extra.update(
        distinct_nontrivial=len({json.dumps([c["steps"], c["nz"], c["bits"], c["api"]]) for c in cases}),
        exhaustive=False,
        largest_zone_pixels=max(sum(r[2] for r in c["steps"][0] if r[0] == 0) for c in cases),
        rule="random rasters up to 12x12 x 1..3 steps, 1..1000 zones (empty ones, zone-nodata pixels), int16/float32/float64, nodata and NaN shares; "
        "run-length families with one zone of 1e5..1e6 (quick) / 2.5e7 (thorough) pixels (constant, two-valued, one large value, mixed), shuffled copies; float32 and float64 outputs",
    )
    for c in cases[:2] + cases[-2:]:
        rep.sample(describe(c))
    rep.settle(cases, verdicts)
    return rep.finish()


def replay(path):
    v = json.loads(open(path).read())
    t = v["trace"]
    c = execute({k: t[k] for k in ("api", "steps", "shape", "dtype", "nz", "bits", "shuffle") if k in t})
    c["tid"] = 1
    verdicts, _ = core.validate_batch(MODULE, [tla_case(c)], jobs=1)
    print("replayed", describe(c), "->", verdicts[1])
    if verdicts[1][0] == "REJECT":
        print(f"VIOLATION property=C16 replay={path}")
        return 1
    return 0
