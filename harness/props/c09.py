"""C09 - SPI calibration window and grouping select exactly the intended samples.

(A) MCSpiAccessor: all sorted axes up to 5/6 steps, all begin/end, all labelings <= 3 groups:
    binary search = counting definition = inclusive window; validity tests = MustRaise;
    scatter/gather over groups = per-group decomposition; single group = ungrouped.
(B) get_calibration_indices and hdc.algo.spi on the same scope and on longer random axes:
    outcome (ValueError iff invalid window), attrs, ungrouped output = kernel output for the
    contract's index pair (candidates around it are recorded, TLC selects), grouped output =
    per-group ungrouped outputs cell by cell, relabelled groups (ints, strings such as '10' < '2').
"""
from __future__ import annotations

import itertools
import json
import random

import numpy as np

from .. import core

MODULE = "TraceSpiAccessor"
ND = -9999


CLOCK = 0   # how integer times map to time stamps: 0 = midnight steps of 5 days, 1 = 12:00 stamps, 2 = 37-hour units (odd clock times)


STAMPS = {}      # per-case override: integer time -> the real time stamp (coarse string bounds)


def stamp(t):
    import pandas as pd

    if t in STAMPS:
        return STAMPS[t]

    if CLOCK == 1:
        return pd.Timestamp("2000-01-01 12:00") + pd.Timedelta(days=int(t) * 5)
    if CLOCK == 2:
        return pd.Timestamp("2000-01-01 06:30") + pd.Timedelta(hours=int(t) * 37)
    return pd.Timestamp("2000-01-01") + pd.Timedelta(days=int(t) * 5)


def cube(times, seed):
    import xarray as xr

    rs = np.random.RandomState(seed % (2**31))
    T = len(times)
    a = rs.gamma(1.2, 40, (2, 2, T)).astype("int16")
    a[rs.rand(2, 2, T) < 0.12] = 0
    if T > 3:
        a[0, 1, rs.randint(0, T)] = ND
    if T > 5:      # gaps before, inside and after any calibration window
        a[rs.rand(2, 2, T) < 0.1] = ND
    da = xr.DataArray(a, dims=("y", "x", "time"), coords={"time": [stamp(t) for t in times]}, attrs={"nodata": ND})
    return da.transpose(*[("y", "x", "time"), ("time", "y", "x"), ("y", "time", "x")][seed % 3])


def flat(r):
    a = np.asarray(r.transpose("y", "x", "time"))
    return [[int(v) for v in a[i, j]] for i in range(a.shape[0]) for j in range(a.shape[1])]


def execute(c):
    import pandas as pd

    global CLOCK
    CLOCK = c.get("clock", 0)
    STAMPS.clear()
    bstr = estr = None
    if c.get("coarse"):
        # sub-daily axis, bounds given as date-only strings: a date string denotes its first instant (numpy / ISO
        # semantics, what the pinned code does); the integer model only needs the ORDER of all instants
        CLOCK = 2
        axis_ts = [stamp(t) for t in c["rawtime"]]
        b_ts = None if c["bsrc"] == -1 else stamp(c["bsrc"]).normalize()
        e_ts = None if c["esrc"] == -1 else stamp(c["esrc"]).normalize()
        inst = sorted(set(axis_ts + [x for x in (b_ts, e_ts) if x is not None]))
        code = {ts: 10 + 2 * k for k, ts in enumerate(inst)}
        STAMPS.update({v: k for k, v in code.items()})
        c["time"] = [code[ts] for ts in axis_ts]
        c["b"] = -1 if b_ts is None else code[b_ts]
        c["e"] = -1 if e_ts is None else code[e_ts]
        bstr = None if b_ts is None else b_ts.strftime("%Y-%m-%d")
        estr = None if e_ts is None else e_ts.strftime("%Y-%m-%d")
    from hdc.algo.ops.stats import gammastd_yxt
    from hdc.algo.utils import get_calibration_indices

    times = c["time"]
    if c.get("prime"):
        execute(dict(c["prime"], clock=c.get("clock", 0)))          # history of the process: an earlier call on a near-identical axis (result not judged here)
        c["primed"] = True
    if c["op"] == "calidx":
        tix = pd.DatetimeIndex([stamp(t) for t in times])
        if c["groups"]:
            r = get_calibration_indices(tix, (stamp(c["b"]), stamp(c["e"])), np.array(c["groups"], dtype="int16"), c["ng"])
            c["res"] = [[int(v) for v in row] for row in r]
        else:
            r = get_calibration_indices(tix, (stamp(c["b"]), stamp(c["e"])))
            c["res"] = [int(r[0]), int(r[1])]
        return c
    da = cube(times, c["seed"])
    kw = {}
    if c["b"] != -1:
        kw["calibration_begin"] = bstr if bstr else (str(stamp(c["b"])) if c.get("strdate") else stamp(c["b"]))
    if c["e"] != -1:
        kw["calibration_end"] = estr if estr else (str(stamp(c["e"])) if c.get("strdate") else stamp(c["e"]))
    back = {str(stamp(t)): t for t in times}
    groups = c["groups"]

    def call(d, **k2):
        try:
            r = d.hdc.algo.spi(**k2)
            return "ok", r
        except Exception as ex:
            return f"raise:{type(ex).__name__}", None

    if groups:
        kw["groups"] = groups
    c["outcome"], r = call(da.chunk({"y": 1}) if c.get("dask") else da, **kw)
    c["out"], c["attrs"], c["subs"], c["cands"], c["relabel"] = [], [-7, -7], [], [], []
    if r is None:
        return c
    c["out"] = flat(r)
    c["attrs"] = [back.get(r.attrs.get("spi_calibration_begin"), -7), back.get(r.attrs.get("spi_calibration_end"), -7)]
    b = times[0] if c["b"] == -1 else c["b"]
    e = times[-1] if c["e"] == -1 else c["e"]
    if not groups:
        x = np.asarray(da.transpose("y", "x", "time")).astype("int16")
        ta = np.array(times)
        i0, j0 = int(np.searchsorted(ta, b, "left")), int(np.searchsorted(ta, e, "right"))
        for st in {max(0, i0 - 1), i0, min(len(times), i0 + 1)}:
            for sp in {max(0, j0 - 1), j0, min(len(times), j0 + 1)}:
                if sp - st >= 1:
                    out = gammastd_yxt(x, ND, st, sp)
                    # the same window expressed differently: the index of a cell depends on the fitted sample, the share of
                    # zeros and the cell's value, not on where the steps sit - move the window's steps to the front and fit [0, sp-st)
                    perm = list(range(st, sp)) + list(range(0, st)) + list(range(sp, len(times)))
                    outp = gammastd_yxt(np.ascontiguousarray(x[:, :, perm]), ND, 0, sp - st)
                    alt = np.empty_like(outp)
                    alt[:, :, perm] = outp
                    c["cands"].append({"start": st, "stop": sp, "out": [[int(v) for v in out[i, j]] for i in range(2) for j in range(2)],
                                       "alt": [[int(v) for v in alt[i, j]] for i in range(2) for j in range(2)]})
    else:
        for g in sorted(set(groups)):
            pos = [i for i, gg in enumerate(groups) if gg == g]
            oc, rs_ = call(da.isel(time=pos), calibration_begin=(bstr if (bstr and c["b"] != -1) else stamp(b)), calibration_end=(estr if (estr and c["e"] != -1) else stamp(e)))
            c["subs"].append({"g": g, "outcome": oc, "out": flat(rs_) if rs_ is not None else []})
        # the same partition under other spellings / orders of the labels
        ids = sorted(set(groups))
        spellings = [{g: str(10 - 3 * k) for k, g in enumerate(ids)}, {g: f"grp{chr(122 - k)}" for k, g in enumerate(ids)}, {g: float(len(ids) - k) for k, g in enumerate(ids)}]
        for sp in spellings:
            oc, rr = call(da, **{**kw, "groups": [sp[g] for g in groups]})
            c["relabel"].append(flat(rr) if rr is not None else [["failed:" + oc]])
        if len(ids) == 1:
            oc, rr = call(da, **{k_: v_ for k_, v_ in kw.items() if k_ != "groups"})
            c["relabel"].append(flat(rr) if rr is not None else [["failed:" + oc]])
    return c


def gen_cases(tier, seed):
    rng = random.Random(seed * 9176 + 9)
    quick = tier == "quick"
    cases = []

    def add(c):
        c["tid"] = len(cases) + 1
        c["clock"] = rng.choice([0, 1, 2])     # midnight stamps, 12:00 stamps, odd clock times
        cases.append(c)

    # the MC scope on the real code: axes of 2..4/5 steps over times 10..22 (even = on a step), labels odd = between
    grid = list(range(10, 23, 2))
    for n in range(2, (4 if quick else 5) + 1):
        axes = list(itertools.combinations(grid[: n + 2], n))
        for times in axes if not quick else rng.sample(axes, min(len(axes), 6)):
            labels = [-1] + list(range(7, times[-1] + 4))
            combos = [(b, e) for b in labels for e in labels]
            for b, e in combos if not quick else rng.sample(combos, 40):
                add({"op": "spi", "time": list(times), "b": b, "e": e, "groups": [], "seed": rng.randrange(10**6)})
                if b != -1 and e != -1:
                    add({"op": "calidx", "time": list(times), "b": b, "e": e, "groups": [], "ng": 0})
            for ng in (1, 2, 3):
                if ng > n:
                    continue
                for _ in range(3 if quick else 12):
                    gr = list(range(ng)) + [rng.randrange(ng) for _ in range(n - ng)]
                    rng.shuffle(gr)
                    b, e = rng.choice(labels), rng.choice(labels)
                    add({"op": "spi", "time": list(times), "b": b, "e": e, "groups": gr, "seed": rng.randrange(10**6)})
                    if b != -1 and e != -1:
                        add({"op": "calidx", "time": list(times), "b": b, "e": e, "groups": gr, "ng": ng})
    # longer axes (regular and irregular), up to 36 groups, interleaved or blocked
    for _ in range(40 if quick else 400):
        T = rng.choice([12, 24, 36, 72] if not quick else [12, 24, 36])
        if rng.random() < 0.5:
            times = [10 + 2 * i for i in range(T)]
        else:
            times = sorted(rng.sample(range(10, 10 + 6 * T, 2), T))
        ng = rng.choice([0, 0, 1, 2, 3, 6, 12, 36])
        ng = min(ng, T // 2)
        b = rng.choice([-1, rng.choice(times), rng.choice(times) + 1, times[0] - 3])
        e = rng.choice([-1, rng.choice(times), rng.choice(times) - 1, times[-1] + 5])
        if ng == 0:
            gr = []
        elif rng.random() < 0.5:
            gr = [i % ng for i in range(T)]
        else:
            gr = sorted(i % ng for i in range(T))
        add({"op": "spi", "time": times, "b": b, "e": e, "groups": gr, "seed": rng.randrange(10**6), "strdate": rng.random() < 0.3, "dask": rng.random() < 0.2})
        if gr and b != -1 and e != -1:
            add({"op": "calidx", "time": times, "b": b, "e": e, "groups": gr, "ng": ng})
    # long axes: more than 127 / 255 members in one group (counters of a narrow integer type would wrap)
    for T, ng in ((300, 1), (300, 2), (420, 2)) if quick else ((300, 1), (300, 2), (420, 2), (600, 1), (600, 3)):
        times = [10 + 2 * i for i in range(T)]
        gr = [i % ng for i in range(T)]
        for b, e in ((-1, -1), (times[5], times[T - 40])):
            add({"op": "spi", "time": times, "b": b, "e": e, "groups": gr, "seed": rng.randrange(10**6), "strdate": False, "dask": False})
            if b != -1:
                add({"op": "calidx", "time": times, "b": b, "e": e, "groups": gr, "ng": ng})
    # same-process history on LONG axes (more than 1000 steps: numpy abbreviates the text of such arrays): a first call on a complete
    # record, then the same record with an interior stretch missing - same first and last steps, same labels at both ends, same
    # window; the second call's index pairs belong to ITS axis
    for T, ng, cut in ((1100, 36, (400, 436)), (1300, 12, (500, 530))) if quick else ((1100, 36, (400, 436)), (1300, 12, (500, 530)), (2100, 36, (900, 972))):
        full = [10 + 2 * i for i in range(T)]
        keep = [i for i in range(T) if not (cut[0] <= i < cut[1])]
        b, e = full[cut[0] - 40], full[T - 100]
        prime = {"op": "calidx", "time": full, "b": b, "e": e, "groups": [i % ng for i in range(T)], "ng": ng}
        add({"op": "calidx", "time": [full[i] for i in keep], "b": b, "e": e, "groups": [i % ng for i in keep], "ng": ng, "prime": prime})
    # sub-daily axes with bounds given as date-only strings (coarser than the axis)
    for _ in range(25 if quick else 250):
        T = rng.choice([6, 10, 16, 24])
        raw = sorted(rng.sample(range(0, 3 * T), T))
        ng = rng.choice([0, 0, 2, 3])
        gr = [i % ng for i in range(T)] if ng and T >= 4 * ng else []
        bsrc = rng.choice([-1, rng.choice(raw[: T // 2])])
        esrc = rng.choice([-1, rng.choice(raw[T // 2 :])])
        add({"op": "spi", "coarse": True, "rawtime": raw, "bsrc": bsrc, "esrc": esrc, "time": [], "b": 0, "e": 0, "groups": gr, "seed": rng.randrange(10**6)})
        cases[-1]["clock"] = 2
    # many groups (numeric labels whose string order differs from their numeric order: 2 < 10 but '10' < '2'),
    # several steps per group, window cutting through the first and the last cycle: per-group index pairs differ
    for _ in range(6 if quick else 40):
        ng = rng.choice([11, 12, 13, 36] if not quick else [11, 12, 36])
        r = rng.choice([4, 5])
        T = ng * r
        times = [10 + 2 * i for i in range(T)]
        base = rng.choice([0, 1])                      # labels 0..ng-1 or 1..ng (dekads of a year)
        gr = [i % ng + base for i in range(T)]
        b = times[rng.randint(1, ng - 1)] - rng.choice([0, 1])
        e = times[T - 1 - rng.randint(1, ng - 1)] + rng.choice([0, 1])
        add({"op": "spi", "time": times, "b": b, "e": e, "groups": gr, "seed": rng.randrange(10**6)})
    return cases


def describe(c):
    d = {k: c[k] for k in ("op", "time", "b", "e", "groups", "outcome", "attrs", "res", "clock") if k in c}
    if len(d.get("time", [])) > 14:
        d["time"] = f"<{len(c['time'])} steps {c['time'][0]}..{c['time'][-1]}>"
        d["groups"] = f"<{len(set(c['groups']))} groups>" if c["groups"] else []
    if c.get("out"):
        d["out_px0"] = c["out"][0][:8]
    return d


def run(tier, seed):
    rep = core.Report("C09", tier, seed)
    quick = tier == "quick"
    cfg = f"SPECIFICATION Spec\nCHECK_DEADLOCK FALSE\nCONSTANTS\n MaxLen = {4 if quick else 5}\n TMax = {5 if quick else 6}\nINVARIANT Holds\n"
    r = core.must_pass(core.tlc("MCSpiAccessor", cfg, workers=core.NCPU, timeout=6000, heap="8g"), "spi accessor scope")
    rep.add_mc("MCSpiAccessor (searchsorted = inclusive window, validity = MustRaise, scatter/gather = decomposition)", r)
    cases = [execute(c) for c in gen_cases(tier, seed)]
    verdicts, st = core.validate_batch(MODULE, cases, per_jvm=600, timeout=3000)
    rep.add_stats("TraceSpiAccessor", st, len(cases))
    rep.extra.update(
        distinct_nontrivial=len({json.dumps([c["time"], c["b"], c["e"], c["groups"], c["op"]]) for c in cases}),
        raised=sum(1 for c in cases if str(c.get("outcome", "")).startswith("raise")),
        grouped=sum(1 for c in cases if c["op"] == "spi" and c["groups"]),
        exhaustive=False,
        rule="axes of 2..4 (quick, sampled) / 5 steps with begin/end on, between, before, after steps or absent; all small labelings with <= 3 groups; "
        "regular and irregular axes of 12..72 steps with up to 36 interleaved or blocked groups; labels respelled as '10' < '2' strings, letters, floats",
    )
    for c in cases[:2] + cases[-2:]:
        rep.sample(describe(c))
    rep.settle(cases, verdicts)
    return rep.finish()


def replay(path):
    v = json.loads(open(path).read())
    t = v["trace"]
    c = execute({k: t[k] for k in ("op", "time", "b", "e", "groups", "ng", "seed", "strdate", "dask", "clock", "coarse", "rawtime", "bsrc", "esrc", "prime") if k in t})
    c["tid"] = 1
    verdicts, _ = core.validate_batch(MODULE, [c], jobs=1)
    print("replayed", describe(c), "->", verdicts[1])
    if verdicts[1][0] == "REJECT":
        print(f"VIOLATION property=C09 replay={path}")
        return 1
    return 0
