------------------------------- MODULE Engines -------------------------------
(***************************************************************************)
(* C13: the catalogue of the numeric kernels of hdc.algo.ops and what it   *)
(* means for the Numba-compiled function and the Python source to agree.   *)
(* Results are flattened sequences of cells; a cell is a rational          *)
(* (canonical string) or one of nan / inf / -inf.                          *)
(*   class "f64": float64 results, 1e-9 relative                           *)
(*   class "f32": results of float32 inputs / float32 outputs, 2^-20       *)
(*   class "int": integer outputs: equal, or one apart where the source's  *)
(*                unrounded value (raw) sits within 1e-6 of a rounding tie *)
(***************************************************************************)
EXTENDS BigRat, Integers, Sequences, FiniteSets, TLC

Njit == {"brentq", "gammafit", "gammastd", "gammastd_yxt", "mk_score", "mk_variance_s", "mk_z_score", "mk_p_value",
         "mk_sens_slope", "mann_kendall_trend_yxt", "mann_kendall_trend_1d", "autocorr_1d_float", "autocorr_1d_int",
         "autocorr_1d", "autocorr", "autocorr_tyx", "ws2d", "_ws2doptvp", "_ws2dwcvp", "ws2doptvplc_tyx", "do_mean"}
Gufunc == {"gammastd_grp", "_mann_kendall_trend_gu_nd", "_mann_kendall_trend_gu", "mean_grp", "rolling_sum", "ws2dgu",
           "ws2dpgu", "ws2doptv", "ws2doptvp", "ws2doptvplc", "ws2dwcv", "ws2dwcvp", "lroo", "tinterpolate"}
Programs == Njit \cup Gufunc
ASSUME Cardinality(Njit) = 21 /\ Cardinality(Gufunc) = 14 /\ Njit \cap Gufunc = {}

Special(s) == s \in {"nan", "inf", "-inf"}
RelTol(cls) == IF cls = "f32" THEN "1/1048576" ELSE "1/1000000000"
CellAgree(cls, a, b, raw) ==
    IF Special(a) \/ Special(b) THEN a = b
    ELSE IF cls = "int" THEN
        \/ a = b
        \/ /\ RLe(RAbs(RSub(a, b)), "1")
           /\ ~Special(raw)
           /\ LET fr == RSub(raw, RInt(RFloor(raw))) IN RLe(RAbs(RSub(fr, "1/2")), "1/1000000")
    ELSE RLe(RAbs(RSub(a, b)), RMul(RelTol(cls), RMax(RMax(RAbs(a), RAbs(b)), "1/1000000000000")))
Agree(cls, py, jit, raw) ==
    /\ Len(py) = Len(jit)
    /\ \A i \in 1..Len(py) : CellAgree(cls[i], py[i], jit[i], IF raw = <<>> THEN "nan" ELSE raw[i])
FirstDisagreement(cls, py, jit, raw) ==
    CHOOSE i \in 1..Len(py) : ~CellAgree(cls[i], py[i], jit[i], IF raw = <<>> THEN "nan" ELSE raw[i])
=============================================================================
