"""C07 - SPI equals the gamma-MLE / zero-mixture / normal-quantile definition.

(A) MCSpiPixel: counting loop, fit-sample loop and case split of gammastd = declarative definitions.
(B) gammastd_yxt, gammastd_grp (single group) and hdc.algo.spi on gamma samples (shape 0.05..500,
    scale 0.1..1e4, integer ties, zero shares to 0.9, nodata anywhere incl. a positive nodata value,
    calibration sub-windows).  TLC computes p0 and the fitted sample exactly, takes G(x) / 1-G(x) from
    SciPy's public scipy.stats path recorded in the trace, forms u = p0 + (1-p0) G and decides the
    reported index by an inversion-free bracket in a table of the normal distribution.
"""
from __future__ import annotations

import json
import random

import numpy as np

from .. import core, spi_common
from .c10 import ptable

MODULE = "TraceSpi"


def gen_cubes(tier, seed):
    rng = random.Random(seed * 52711 + 7)
    rs = np.random.RandomState(seed + 7)
    quick = tier == "quick"
    cubes = []
    for _ in range(60 if quick else 600):
        T = rng.choice([3, 4, 6, 10, 20, 36, 60] + ([] if quick else [120, 400]))
        shape = 10 ** rng.uniform(np.log10(0.05), np.log10(500))
        scale = 10 ** rng.uniform(-1, 4)
        dtype = rng.choice(["int16", "int16", "float64", "float32"])
        nd = rng.choice([-9999, -9999, -1, 32767, 255, 9999])
        npix = rng.randint(1, 4)
        pixels = []
        for _p in range(npix):
            v = rs.gamma(shape, scale, T)
            if dtype == "int16":
                v = np.clip(np.round(v), 0, 30000)
            zshare = rng.choice([0, 0, 0.2, 0.5, 0.85])
            v[rs.rand(T) < zshare] = 0
            xs = [float(a) for a in v.tolist()]
            xs = [x if x != nd else x + 1 for x in xs]
            for j in range(T):
                if rng.random() < 0.08:
                    xs[j] = float(nd)
            pixels.append(xs)
        if T >= 4 and rng.random() < 0.6:
            st = rng.randint(0, T - 2)
            sp = rng.randint(st + 2, T)
        else:
            st, sp = 0, T
        api = rng.choice(["yxt", "yxt", "grp", "accessor"])
        if api == "grp" and dtype == "float64":
            dtype = "float32"
        if api == "accessor":
            dtype = "int16" if dtype != "float32" else "float32"
            if dtype == "int16":
                pixels = [[float(nd) if x == nd else float(min(30000, int(round(x)))) for x in px] for px in pixels]
                pixels = [[x if (x == nd or x != nd) else x for x in px] for px in pixels]
        cubes.append((pixels, nd, st, sp, api, dtype))
    # far tails inside the claim (5.2 < |SPI| <= 7): a calibration sub-window of ordinary values, and observations OUTSIDE the
    # window placed at chosen normal quantiles of the window's own fit (tail probabilities 1e-7 .. 1e-12)
    import scipy.stats as sst

    for k in range(6 if quick else 40):
        W = rng.choice([24, 36, 60])
        mean, sd = rng.choice([(1000.0, 100.0), (300.0, 60.0), (5000.0, 400.0)])
        win = rs.gamma((mean / sd) ** 2, sd * sd / mean, W)
        dtype = ["int16", "float64", "int16", "float32"][k % 4]
        if dtype == "int16":
            win = np.round(win)
        a_, _loc, b_ = sst.gamma.fit(win, floc=0)
        # every other cube: a share of zeros in the pixel (the index is then a quantile of the MIXTURE p0 + (1 - p0) G, also
        # in the far wet tail, where only the survival function has resolution) and a fine ladder around 6 sigma
        nzero = (W // 2) if k % 2 else 0
        p0_ = nzero * 2 / (W + nzero * 2 + 8.0) if nzero else 0.0
        zs = (-6.8, -6.3, -5.8, -5.3, 5.3, 5.8, 6.3, 6.8) if not nzero else (5.3, 5.6, 5.8, 5.9, 6.0, 6.05, 6.1, 6.2, 6.4, 6.8)
        tails = []
        for z in zs:
            if z < 0:
                x = sst.gamma.ppf(sst.norm.cdf(z), a_, scale=b_)
            else:
                x = sst.gamma.isf(sst.norm.sf(z) / (1.0 - p0_), a_, scale=b_)
            tails.append(float(np.round(x)) if dtype == "int16" else float(x))
        tails = [t for t in tails if 0 < t < 30000]
        rng.shuffle(tails)
        lead = rng.randint(0, len(tails))
        body = [float(v) for v in win.tolist()]
        if nzero:
            body = body + [0.0] * nzero
            rng.shuffle(body)
        xs = tails[:lead] + body + tails[lead:] + [0.0] * nzero
        cubes.append(([xs], -9999, lead, lead + len(body), rng.choice(["yxt", "accessor", "grp"] if dtype != "float64" else ["yxt"]), dtype, "tails" + ("+zeros" if nzero else "")))
    # boundary of the zero-share guard: exactly 90% zeros is still fitted, one more zero is not
    for T in (20, 30, 40) if quick else (20, 30, 40, 50, 100):
        for extra in (-1, 0, 1):
            nz = (9 * T) // 10 + extra
            pos = [float(v) for v in rs.randint(5, 400, T - nz)]
            if len(set(pos)) < 2:
                pos[0] += 1.0
            xs = [0.0] * nz + pos
            rng.shuffle(xs)
            cubes.append(([xs, [float(v) for v in rs.randint(1, 300, T)]], -9999, 0, T, rng.choice(["yxt", "grp", "accessor"]), "int16"))
    return cubes


def describe(c):
    return {k: c[k] for k in ("api", "dtype", "tag", "st", "sp", "outcome", "pix", "checkvalue", "ndmode")} | {"nd": c["ndi"], "x_head": c["xi"][:10], "out_head": c["out"][:10], "n": len(c["xi"])}


def tla_case(c):
    return {k: c[k] for k in ("tid", "x", "nd", "ndi", "st", "sp", "outcome", "out", "fit", "G", "S", "dlt", "drel", "checkvalue", "inmod")}


def run_common(prop, tier, seed, cubes, rule):
    rep = core.Report(prop, tier, seed)
    quick = tier == "quick"
    cfg = f"SPECIFICATION Spec\nCHECK_DEADLOCK FALSE\nCONSTANT MaxLen = {4 if quick else 5}\nINVARIANT Holds\n"
    r = core.must_pass(core.tlc("MCSpiPixel", cfg, workers=core.NCPU, timeout=3000, heap="6g"), "spi skeleton")
    rep.add_mc("MCSpiPixel (counting loop, fit sample, case split = definitions)", r)
    cases = []
    for (pixels, nd, st, sp, api, dtype, *rest) in cubes:
        tag = rest[0] if rest else "gamma"
        ndmode = ["attr", "arg", "both"][(len(cases) + len(pixels)) % 3] if api == "accessor" else "attr"
        cases += spi_common.cases_for(pixels, nd, st, sp, api, dtype, tag, ndmode=ndmode, dask=(api == "accessor" and len(cases) % 5 == 0))
    for i, c in enumerate(cases):
        c["tid"] = i + 1
    verdicts, stt = core.validate_batch(MODULE, [tla_case(c) for c in cases], per_jvm=150, timeout=6000, heap="4g", common={"ptable": ptable()})
    rep.add_stats("TraceSpi", stt, len(cases))
    rep.extra.update(
        distinct_nontrivial=len({json.dumps([c["xi"], c["ndi"], c["st"], c["sp"], c["api"], c["dtype"]]) for c in cases if c["checkvalue"]}),
        value_checked_pixels=sum(1 for c in cases if c["checkvalue"]),
        exhaustive=False,
        rule=rule,
    )
    for c in cases[:2] + cases[-2:]:
        rep.sample(describe(c))
    rep.settle(cases, verdicts)
    rep.assumptions += ["gamma MLE / CDF / survival values come from scipy.stats (the oracle the property names), not from the vendored cython_special bindings the kernels use",
                        "Phi enters through a table erfc(k/(2000 sqrt2)); indices beyond +-7000 are only required to stay extreme (C08)",
                        "float32 inputs: the bracket is widened by 3 units"]
    return rep


def run(tier, seed):
    rep = run_common("C07", tier, seed, gen_cubes(tier, seed),
                     "gamma samples: shape 0.05..500, scale 0.1..1e4, int16 (rounded, ties) / float64 / float32, zero share 0..0.85, 8% nodata cells with nodata in {-9999,-1,32767,255,9999}, "
                     "calibration sub-windows >= 2 steps, series length 3..60 (quick) / 400; gammastd_yxt, gammastd_grp, accessor")
    return rep.finish()


def replay(path, prop="C07"):
    v = json.loads(open(path).read())
    t = v["trace"]
    cs = spi_common.cases_for([t["xi"]], t["ndi"], t["st"], t["sp"], t["api"], t["dtype"], t.get("tag", ""), ndmode=t.get("ndmode", "attr"))
    cs[0]["tid"] = 1
    verdicts, _ = core.validate_batch(MODULE, [tla_case(cs[0])], jobs=1, common={"ptable": ptable()})
    print("replayed", describe(cs[0]), "->", verdicts[1])
    if verdicts[1][0] == "REJECT":
        print(f"VIOLATION property={prop} replay={path}")
        return 1
    return 0
